#!/usr/bin/env python3
"""Must-pass corpus: behaviour-preserving edits (written by sub-agents that saw
only the library) are applied to a scratch copy of /repo's working tree; the
whole contract suite must raise nothing on them. Entries marked
expect=contract-error are the known residual false alarms (kept to notice when
they go away). usage: run_pass.py [name-substring]   (exit 1 on an unexpected alarm)"""
import json, os, shutil, subprocess, sys
HERE = os.path.dirname(os.path.abspath(__file__))
VERIF = os.path.dirname(HERE)
REPO = os.environ.get("VERIF_REPO", "/repo")
ENV = dict(os.environ, GOFLAGS="-mod=mod", GOPROXY="off", GOSUMDB="off", GOTOOLCHAIN="local")

def main():
    want = sys.argv[1] if len(sys.argv) > 1 else ""
    idx = json.load(open(os.path.join(HERE, "must_pass", "index.json")))
    scratch = "/root/scratch/selftest-pass-%d" % os.getpid()
    os.makedirs("/root/scratch", exist_ok=True)
    bad = 0; ran = 0
    try:
        for e in idx:
            if want not in e["patch"]:
                continue
            shutil.rmtree(scratch, ignore_errors=True)
            subprocess.run(["rsync", "-a", "--exclude", ".git", REPO + "/", scratch + "/"], check=True)
            p = os.path.join(HERE, "must_pass", e["patch"])
            r = subprocess.run("patch -p1 -F3 -s --no-backup-if-mismatch < %s" % p, shell=True, cwd=scratch, capture_output=True, text=True)
            if r.returncode != 0:
                print("SKIP %s (does not apply to the current tree)" % e["patch"]); continue
            r = subprocess.run([os.path.join(VERIF, "bin", "govc"), "-repo", scratch, "-timeout", "10000", "-retry-timeout", "30000"], env=ENV, capture_output=True, text=True)
            alarms = [l.strip() for l in r.stdout.splitlines() if l.strip().startswith("FAIL") or l.strip().startswith("ERROR")]
            ran += 1
            if e["expect"] == "clean":
                if alarms:
                    print("ALARM %s (%s): %s" % (e["patch"], e.get("kind"), alarms[0][:200])); bad += 1
                else:
                    print("ok    %s clean" % e["patch"])
            else:
                print("known %s: %s" % (e["patch"], alarms[0][:160] if alarms else "NOW CLEAN"))
    finally:
        shutil.rmtree(scratch, ignore_errors=True)
    print("must-pass: %d run, %d unexpected alarms" % (ran, bad))
    return 1 if bad else 0

if __name__ == "__main__":
    sys.exit(main())
