#!/usr/bin/env python3
"""Must-fail corpus: each patch (seeded defects that the checks catch, reverted
fixes, own mutations) is applied to a scratch copy of /repo's working tree and
must make a named obligation fail. usage: run.py [Cxx|all] [patch-name-substring]   (exit 1 if a
patch that applies is NOT caught; patches that no longer apply are skipped)."""
import json, os, shutil, subprocess, sys
HERE = os.path.dirname(os.path.abspath(__file__))
VERIF = os.path.dirname(HERE)
REPO = os.environ.get("VERIF_REPO", "/repo")
ENV = dict(os.environ, GOFLAGS="-mod=mod", GOPROXY="off", GOSUMDB="off", GOTOOLCHAIN="local")

def main():
    want = sys.argv[1] if len(sys.argv) > 1 else "all"
    idx = json.load(open(os.path.join(HERE, "index.json")))
    scratch = "/root/scratch/selftest-%d" % os.getpid()
    os.makedirs("/root/scratch", exist_ok=True)
    bad = 0; ran = 0; skipped = 0
    try:
        for e in idx:
            if want != "all" and want not in e["props"]:
                continue
            if len(sys.argv) > 2 and sys.argv[2] not in e["patch"]:
                continue
            shutil.rmtree(scratch, ignore_errors=True)
            subprocess.run(["rsync", "-a", "--exclude", ".git", REPO + "/", scratch + "/"], check=True)
            p = os.path.join(HERE, "must_fail", e["patch"])
            r = subprocess.run("patch -p1 -F3 -s --no-backup-if-mismatch < %s" % p, shell=True, cwd=scratch, capture_output=True, text=True)
            if r.returncode != 0:
                print("SKIP %s (does not apply to the current tree)" % e["patch"]); skipped += 1
                continue
            prop = e["props"][0] if want == "all" else want
            r = subprocess.run([os.path.join(VERIF, "bin", "govc"), "-repo", scratch, "-props", prop, "-timeout", "10000"], env=ENV, capture_output=True, text=True)
            if r.returncode != 0 or "govc: load" in (r.stdout + r.stderr):
                print("ERROR %s: verifier did not run on the patched copy: %s" % (e["patch"], (r.stdout + r.stderr).strip()[-200:])); skipped += 1
                continue
            hits = [l for l in r.stdout.splitlines() if (l.strip().startswith("FAIL") or l.strip().startswith("ERROR")) and e["expect"] in l]
            ran += 1
            if hits:
                print("ok   %s caught: %s" % (e["patch"], hits[0].strip()[:150]))
            else:
                print("MISS %s: no failing obligation containing %r for %s" % (e["patch"], e["expect"], prop)); bad += 1
    finally:
        shutil.rmtree(scratch, ignore_errors=True)
    print("selftest: %d run, %d missed, %d skipped" % (ran, bad, skipped))
    return 1 if bad else 0

if __name__ == "__main__":
    sys.exit(main())
