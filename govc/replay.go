package main

// Counterexample replay: for a failing obligation with a solver model, build a
// Go test that constructs the function's arguments from the model and calls
// the real function. Supported argument shapes: integers, bools, strings,
// byte slices, and pointers to structs whose fields are of those shapes (one
// level of nesting through struct-valued fields). Anything else => no recipe.

import (
	"fmt"
	"go/types"
	"sort"
	"strconv"
	"strings"

	"golang.org/x/tools/go/ssa"
)

type replayParam struct {
	name  string
	t     types.Type
	terms map[string]string // logical slot -> SMT term to evaluate ("", ".f", ".f.len", ".f[3]", ...)
	ok    bool
}

const replayBytes = 24

// replayPlan records, at function entry, which terms a replay needs.
func (fc *FnCtx) replayPlan(st *State, fn *ssa.Function, args []Val) {
	fc.replay = nil
	for i, p := range fn.Params {
		rp := &replayParam{name: p.Name(), t: p.Type(), terms: map[string]string{}, ok: true}
		fc.planVal(st, rp, "", args[i], 0)
		fc.replay = append(fc.replay, rp)
	}
}

func (fc *FnCtx) planVal(st *State, rp *replayParam, slot string, v Val, depth int) {
	switch v.K {
	case KInt:
		switch v.T.Underlying().(type) {
		case *types.Basic:
			rp.terms[slot] = v.S
		default:
			rp.terms[slot+".nilref"] = v.S // maps/chans: only nil-ness
		}
	case KBool, KStr:
		rp.terms[slot] = v.S
	case KSlice:
		if b, ok := v.T.Underlying().(*types.Slice).Elem().Underlying().(*types.Basic); !ok || b.Kind() != types.Uint8 {
			rp.terms[slot+".len"] = v.Len
			rp.terms[slot+".nilref"] = v.Arr
			return
		}
		rp.terms[slot+".len"] = v.Len
		rp.terms[slot+".cap"] = v.Cap
		rp.terms[slot+".nilref"] = v.Arr
		inner := tSel(fc.elemArray(st, v), v.Arr)
		for k := 0; k < replayBytes; k++ {
			rp.terms[fmt.Sprintf("%s[%d]", slot, k)] = tSel(inner, tAdd(v.Off, num(int64(k))))
		}
	case KIface, KFunc:
		rp.terms[slot+".nilref"] = refOf(v)
		if v.K == KIface {
			rp.terms[slot+".nilref"] = v.Tag
		}
	case KAddr:
		rp.terms[slot+".nilref"] = v.A.Base
		stt := structOf(v.A.T)
		if stt == nil || v.A.Kind != AObj || depth > 1 {
			return
		}
		for i := 0; i < stt.NumFields(); i++ {
			f := stt.Field(i)
			a := *v.A
			a.Path = append(append([]int{}, a.Path...), i)
			a.T = f.Type()
			switch kindOf(f.Type()) {
			case KInt, KBool, KStr, KSlice, KIface, KFunc:
				fv := fc.load(st, &a)
				fc.planVal(st, rp, slot+"."+f.Name(), fv, depth+1)
			case KStruct:
				sv := Val{K: KAddr, T: types.NewPointer(f.Type()), A: &a}
				fc.planVal(st, rp, slot+"."+f.Name(), sv, depth+1)
			case KAddr:
				fv := fc.load(st, &a)
				rp.terms[slot+"."+f.Name()+".nilref"] = fv.A.Base
			}
		}
	case KStruct:
		stt := v.T.Underlying().(*types.Struct)
		for i, f := range v.Fs {
			fc.planVal(st, rp, slot+"."+stt.Field(i).Name(), f, depth+1)
		}
	}
}

// replayTerms: all terms, in deterministic order.
func (fc *FnCtx) replayTerms() []string {
	var out []string
	for _, rp := range fc.replay {
		ks := make([]string, 0, len(rp.terms))
		for k := range rp.terms {
			ks = append(ks, k)
		}
		sort.Strings(ks)
		for _, k := range ks {
			out = append(out, rp.terms[k])
		}
	}
	return out
}

// parseGetValue parses "((t1 v1) (t2 v2) ...)" positionally.
func parseGetValue(out string, n int) []string {
	i := strings.Index(out, "@@values")
	if i < 0 {
		return nil
	}
	s := out[i+len("@@values"):]
	j := strings.Index(s, "((")
	if j < 0 {
		return nil
	}
	s = s[j+1:]
	var vals []string
	depth := 0
	start := -1
	for k := 0; k < len(s) && len(vals) < n; k++ {
		switch s[k] {
		case '(':
			if depth == 0 {
				start = k
			}
			depth++
		case ')':
			depth--
			if depth == 0 && start >= 0 {
				vals = append(vals, s[start:k+1])
				start = -1
			}
			if depth < 0 {
				return vals
			}
		}
	}
	return vals
}

// lastValue extracts the value from "(term value)".
func lastValue(pair string) string {
	pair = strings.TrimSpace(pair)
	pair = pair[1 : len(pair)-1]
	// the value is the last top-level s-expression / token
	depth := 0
	for k := len(pair) - 1; k >= 0; k-- {
		switch pair[k] {
		case ')':
			depth++
		case '(':
			depth--
			if depth == 0 {
				return strings.TrimSpace(pair[k:])
			}
		case ' ':
			if depth == 0 {
				return strings.TrimSpace(pair[k+1:])
			}
		}
	}
	return pair
}

func smtInt(v string) (int64, bool) {
	v = strings.TrimSpace(v)
	neg := false
	if strings.HasPrefix(v, "(-") {
		neg = true
		v = strings.TrimSpace(v[2 : len(v)-1])
	}
	n, err := strconv.ParseInt(v, 10, 64)
	if err != nil {
		return 0, false
	}
	if neg {
		n = -n
	}
	return n, true
}

func smtStr(v string) (string, bool) {
	v = strings.TrimSpace(v)
	if len(v) < 2 || v[0] != '"' {
		return "", false
	}
	v = v[1 : len(v)-1]
	v = strings.ReplaceAll(v, `""`, `"`)
	var b strings.Builder
	for i := 0; i < len(v); i++ {
		if strings.HasPrefix(v[i:], `\u{`) {
			j := strings.Index(v[i:], "}")
			n, err := strconv.ParseInt(v[i+3:i+j], 16, 32)
			if err == nil && n < 256 {
				b.WriteByte(byte(n))
			} else {
				b.WriteByte('?')
			}
			i += j
			continue
		}
		b.WriteByte(v[i])
	}
	return b.String(), true
}

// buildReplay generates the test source, or "" with a reason.
func (fc *FnCtx) buildReplay(o *Obligation, values []string) (src string, reason string) {
	fn := fc.fn
	if fn.Parent() != nil {
		return "", "closure"
	}
	terms := fc.replayTerms()
	if len(values) != len(terms) {
		return "", fmt.Sprintf("model incomplete (%d of %d values)", len(values), len(terms))
	}
	val := map[string]string{}
	for i, t := range terms {
		val[t] = lastValue(values[i])
	}
	pkg := fn.Pkg.Pkg
	qual := func(p *types.Package) string {
		if p == pkg {
			return ""
		}
		return p.Name()
	}
	var b strings.Builder
	imports := map[string]bool{"testing": true}
	var decl []string
	var argNames []string
	for pi, rp := range fc.replay {
		vn := fmt.Sprintf("a%d", pi)
		argNames = append(argNames, vn)
		get := func(slot string) (string, bool) {
			t, ok := rp.terms[slot]
			if !ok {
				return "", false
			}
			v, ok := val[t]
			return v, ok
		}
		var gen func(slot string, t types.Type, target string) bool
		gen = func(slot string, t types.Type, target string) bool {
			switch kindOf(t) {
			case KInt:
				if _, isBasic := t.Underlying().(*types.Basic); !isBasic {
					return true // map/chan: leave nil
				}
				v, ok := get(slot)
				n, ok2 := smtInt(v)
				if !ok || !ok2 {
					return false
				}
				decl = append(decl, fmt.Sprintf("%s = %s(%d)", target, types.TypeString(t, qual), n))
				// negative literals for unsigned types do not occur (values are in range)
			case KBool:
				v, ok := get(slot)
				if !ok {
					return false
				}
				decl = append(decl, fmt.Sprintf("%s = %s", target, v))
			case KStr:
				v, ok := get(slot)
				s, ok2 := smtStr(v)
				if !ok || !ok2 {
					return false
				}
				decl = append(decl, fmt.Sprintf("%s = %s(%q)", target, types.TypeString(t, qual), s))
			case KSlice:
				nr, _ := get(slot + ".nilref")
				if n, ok := smtInt(nr); ok && n == 0 {
					return true // nil slice
				}
				lv, ok := get(slot + ".len")
				ln, ok2 := smtInt(lv)
				if !ok || !ok2 || ln < 0 || ln > 1<<20 {
					return false
				}
				eb, isB := t.Underlying().(*types.Slice).Elem().Underlying().(*types.Basic)
				if !isB || eb.Kind() != types.Uint8 {
					return ln == 0
				}
				cv, _ := get(slot + ".cap")
				cp, ok3 := smtInt(cv)
				if !ok3 || cp < ln || cp > 1<<20 {
					cp = ln
				}
				decl = append(decl, fmt.Sprintf("%s = make(%s, %d, %d)", target, types.TypeString(t, qual), ln, cp))
				for k := int64(0); k < replayBytes && k < ln; k++ {
					if bv, ok := get(fmt.Sprintf("%s[%d]", slot, k)); ok {
						if n, ok := smtInt(bv); ok && n != 0 {
							decl = append(decl, fmt.Sprintf("%s[%d] = %d", target, k, n&255))
						}
					}
				}
			case KIface, KFunc:
				nr, _ := get(slot + ".nilref")
				if n, ok := smtInt(nr); !ok || n != 0 {
					return false // would need a concrete implementation
				}
			case KAddr:
				nr, _ := get(slot + ".nilref")
				if n, ok := smtInt(nr); ok && n == 0 {
					return true
				}
				pt := t.Underlying().(*types.Pointer).Elem()
				stt := structOf(pt)
				if stt == nil {
					return false
				}
				decl = append(decl, fmt.Sprintf("%s = new(%s)", target, types.TypeString(pt, qual)))
				for i := 0; i < stt.NumFields(); i++ {
					f := stt.Field(i)
					if !f.Exported() && f.Pkg() != pkg {
						// cannot set an unexported field of another package: acceptable only if irrelevant
						continue
					}
					fs := slot + "." + f.Name()
					has := false
					for k := range rp.terms {
						if strings.HasPrefix(k, fs) {
							has = true
						}
					}
					if !has {
						continue
					}
					switch kindOf(f.Type()) {
					case KAddr:
						nr, _ := get(fs + ".nilref")
						if n, ok := smtInt(nr); !ok || n != 0 {
							return false
						}
					case KStruct:
						st2 := f.Type().Underlying().(*types.Struct)
						for j := 0; j < st2.NumFields(); j++ {
							g := st2.Field(j)
							if !gen(fs+"."+g.Name(), g.Type(), target+"."+f.Name()+"."+g.Name()) {
								return false
							}
						}
					default:
						if !gen(fs, f.Type(), target+"."+f.Name()) {
							return false
						}
					}
				}
			case KStruct:
				stt := t.Underlying().(*types.Struct)
				for j := 0; j < stt.NumFields(); j++ {
					g := stt.Field(j)
					if !gen(slot+"."+g.Name(), g.Type(), target+"."+g.Name()) {
						return false
					}
				}
			default:
				return false
			}
			return true
		}
		decl = append(decl, fmt.Sprintf("var %s %s", vn, types.TypeString(rp.t, qual)))
		if !gen("", rp.t, vn) {
			return "", "argument " + rp.name + " has a shape the replay cannot construct"
		}
		// collect imports for qualified types
		types.TypeString(rp.t, func(p *types.Package) string {
			if p != pkg {
				imports[p.Path()] = true
			}
			return p.Name()
		})
	}
	// the call
	var call string
	if recv := fn.Signature.Recv(); recv != nil {
		call = fmt.Sprintf("%s.%s(%s)", argNames[0], fn.Name(), strings.Join(argNames[1:], ", "))
	} else {
		call = fmt.Sprintf("%s(%s)", fn.Name(), strings.Join(argNames, ", "))
	}
	want := map[string]string{"index": "out of range", "slice": "out of range", "nil": "nil pointer", "divzero": "divide by zero",
		"nilmap": "nil map", "typeassert": "interface conversion", "makeslice": "out of range", "panic": ""}[o.Kind]
	fmt.Fprintf(&b, "package %s\n\nimport (\n", pkg.Name())
	var imps []string
	for p := range imports {
		imps = append(imps, p)
	}
	imps = append(imps, "fmt", "strings")
	sort.Strings(imps)
	for _, p := range imps {
		fmt.Fprintf(&b, "\t%q\n", p)
	}
	fmt.Fprintf(&b, ")\n\n// replay of: %s\nfunc TestVerifReplay(t *testing.T) {\n", o.Name)
	fmt.Fprintf(&b, "\tdefer func() {\n\t\tif r := recover(); r != nil {\n\t\t\tmsg := fmt.Sprint(r)\n\t\t\tif strings.Contains(msg, %q) {\n\t\t\t\tt.Fatalf(\"REPRODUCED: %%s\", msg)\n\t\t\t}\n\t\t\tt.Logf(\"other panic (not the reported one): %%s\", msg)\n\t\t}\n\t}()\n", want)
	for _, d := range decl {
		fmt.Fprintf(&b, "\t%s\n", d)
	}
	fmt.Fprintf(&b, "\t%s\n}\n", call)
	return b.String(), ""
}
