package main

// Environment contracts (T3): Go-implemented models of standard-library
// functions the verified code depends on. Each use is recorded as an
// assumption in evidence.

import (
	"fmt"
	"go/types"

	"golang.org/x/tools/go/ssa"
)

type envFn func(fc *FnCtx, fr *Frame, st *State, reach string, args []Val, call ssa.CallInstruction) Val
type envInv func(fc *FnCtx, fr *Frame, st *State, reach string, recv Val, args []Val, call ssa.CallInstruction) Val

var envFuncs map[string]envFn
var envInvoke map[string]envInv

func unit() Val { return Val{K: KTuple, T: types.NewTuple()} }

func init() {
	envFuncs = map[string]envFn{}
	envInvoke = map[string]envInv{}
	for _, w := range []struct {
		n string
		k int
		t types.BasicKind
	}{{"Uint16", 2, types.Uint16}, {"Uint32", 4, types.Uint32}, {"Uint64", 8, types.Uint64}} {
		w := w
		envFuncs["(encoding/binary.bigEndian)."+w.n] = func(fc *FnCtx, fr *Frame, st *State, reach string, args []Val, call ssa.CallInstruction) Val {
			b := args[len(args)-1]
			fc.oblige(fr, "index", "binary.BigEndian."+w.n+": "+fc.exprAt(fr, call.Pos(), isCall), reach, sx(">=", b.Len, num(int64(w.k))), false, nil)
			return intVal(types.Typ[w.t], fc.nameTerm("be", "Int", beTerm(fc, st, b, "0", w.k)))
		}
		envFuncs["(encoding/binary.bigEndian).Put"+w.n] = func(fc *FnCtx, fr *Frame, st *State, reach string, args []Val, call ssa.CallInstruction) Val {
			b, v := args[len(args)-2], args[len(args)-1]
			fc.oblige(fr, "index", "binary.BigEndian.Put"+w.n+": "+fc.exprAt(fr, call.Pos(), isCall), reach, sx(">=", b.Len, num(int64(w.k))), false, nil)
			name := "M$" + typeName(types.Typ[types.Uint8]) + "$"
			l := loc{name: name, idx: []string{"", ""}, sort: "Int"}
			cur := fc.heapTerm(st, name, l.arraySort())
			inner := tSel(cur, b.Arr)
			// the k bytes are the unique base-256 digits of v
			sum := "0"
			for k := 0; k < w.k; k++ {
				bk := fc.sc.fresh("put", "Int")
				fc.sc.assume(sx("inr", bk, "0", "255"))
				mul := pow2(int64(8 * (w.k - 1 - k))).String()
				term := sx("*", bk, mul)
				if mul == "1" {
					term = bk
				}
				if sum == "0" {
					sum = term
				} else {
					sum = sx("+", sum, term)
				}
				inner = tStore(inner, tAdd(b.Off, num(int64(k))), bk)
			}
			fc.sc.assume(tEq(sum, v.S))
			st.heap[name] = fc.nameTerm("hp", l.arraySort(), tStore(cur, b.Arr, inner))
			fc.noteWrite(name)
			return unit()
		}
	}
	nop := func(fc *FnCtx, fr *Frame, st *State, reach string, args []Val, call ssa.CallInstruction) Val {
		return unit()
	}
	for _, n := range []string{"(*sync.Mutex).Lock", "(*sync.Mutex).Unlock", "(*sync.RWMutex).Lock", "(*sync.RWMutex).Unlock", "(*sync.RWMutex).RLock", "(*sync.RWMutex).RUnlock"} {
		n := n
		envFuncs[n] = func(fc *FnCtx, fr *Frame, st *State, reach string, args []Val, call ssa.CallInstruction) Val {
			fc.lockOp(fr, st, reach, n, args[0], call)
			return unit()
		}
	}
	_ = nop
	envFuncs["errors.New"] = func(fc *FnCtx, fr *Frame, st *State, reach string, args []Val, call ssa.CallInstruction) Val {
		v := fc.freshVal(st, call.Common().Signature().Results().At(0).Type(), "err")
		fc.sc.assume(tNot(tEq(v.Tag, "0")))
		return v
	}
	envFuncs["fmt.Errorf"] = envFuncs["errors.New"]
	envFuncs["bytes.Equal"] = func(fc *FnCtx, fr *Frame, st *State, reach string, args []Val, call ssa.CallInstruction) Val {
		// same model as bytes.Compare(a, b) == 0
		a, b := args[0], args[1]
		r := fc.sc.fresh("bytes_eq", "Bool")
		ia := tSel(fc.elemArray(st, a), a.Arr)
		ib := tSel(fc.elemArray(st, b), b.Arr)
		fc.nq++
		k := fmt.Sprintf("q%d_k", fc.nq)
		same := "(forall ((" + k + " Int)) (! (=> (and (<= " + a.Off + " " + k + ") (< " + k + " (+ " + a.Off + " " + a.Len + "))) (= (select " + ia + " " + k + ") (select " + ib + " (+ (- " + k + " " + a.Off + ") " + b.Off + ")))) :pattern ((select " + ia + " " + k + "))))"
		fc.sc.assume(tImp(r, tAnd(tEq(a.Len, b.Len), same)))
		fc.sc.assume(tImp(tAnd(tEq(a.Len, "0"), tEq(b.Len, "0")), r))
		return boolVal(r)
	}
	envFuncs["bytes.Compare"] = func(fc *FnCtx, fr *Frame, st *State, reach string, args []Val, call ssa.CallInstruction) Val {
		a, b := args[0], args[1]
		r := fc.sc.fresh("bytes_cmp", "Int")
		fc.sc.assume(sx("inr", r, "(- 1)", "1"))
		ia := tSel(fc.elemArray(st, a), a.Arr)
		ib := tSel(fc.elemArray(st, b), b.Arr)
		fc.nq++
		k := fmt.Sprintf("q%d_k", fc.nq)
		same := "(forall ((" + k + " Int)) (! (=> (and (<= " + a.Off + " " + k + ") (< " + k + " (+ " + a.Off + " " + a.Len + "))) (= (select " + ia + " " + k + ") (select " + ib + " (+ (- " + k + " " + a.Off + ") " + b.Off + ")))) :pattern ((select " + ia + " " + k + "))))"
		fc.sc.assume(tImp(tEq(r, "0"), tAnd(tEq(a.Len, b.Len), same)))
		fc.sc.assume(tImp(tAnd(tEq(a.Len, "0"), tEq(b.Len, "0")), tEq(r, "0")))
		return intVal(types.Typ[types.Int], r)
	}
	nonNilIface := func(fc *FnCtx, fr *Frame, st *State, reach string, recv Val, args []Val, call ssa.CallInstruction) Val {
		v := fc.freshVal(st, resultType(call.Common().Signature().Results()), "addr")
		fc.sc.assume(tNot(tEq(v.Tag, "0")))
		return v
	}
	envInvoke["net.Conn.LocalAddr"] = nonNilIface
	envInvoke["net.Conn.RemoteAddr"] = nonNilIface
	envFuncs["(net.IP).To4"] = func(fc *FnCtx, fr *Frame, st *State, reach string, args []Val, call ssa.CallInstruction) Val {
		v := fc.freshVal(st, resultType(call.Common().Signature().Results()), "ip4")
		fc.sc.assume(tOr(tEq(v.Arr, "0"), tEq(v.Len, "4")))
		return v
	}
	envFuncs["strings.HasSuffix"] = func(fc *FnCtx, fr *Frame, st *State, reach string, args []Val, call ssa.CallInstruction) Val {
		return boolVal(sx("str.suffixof", args[1].S, args[0].S))
	}
	envFuncs["strings.HasPrefix"] = func(fc *FnCtx, fr *Frame, st *State, reach string, args []Val, call ssa.CallInstruction) Val {
		return boolVal(sx("str.prefixof", args[1].S, args[0].S))
	}
	envFuncs["(*math/rand.Rand).Intn"] = func(fc *FnCtx, fr *Frame, st *State, reach string, args []Val, call ssa.CallInstruction) Val {
		n := args[len(args)-1]
		fc.oblige(fr, "panic", "rand.Intn: argument must be positive", reach, sx(">", n.S, "0"), false, nil)
		r := fc.sc.fresh("intn", "Int")
		fc.sc.assume(tAnd(sx("<=", "0", r), sx("<", r, n.S)))
		return intVal(types.Typ[types.Int], r)
	}
	envFuncs["math/rand.Intn"] = envFuncs["(*math/rand.Rand).Intn"]
	timeEnv()
	contextEnv()
	envFuncs["(*sync.Pool).Put"] = nop
	envFuncs["(*sync.Pool).Get"] = func(fc *FnCtx, fr *Frame, st *State, reach string, args []Val, call ssa.CallInstruction) Val {
		v := fc.freshVal(st, call.Common().Signature().Results().At(0).Type(), "pooled")
		fc.poolVals[v.Tag] = true
		return v
	}
	// binary.ReadUvarint(r): calls r.ReadByte() up to 10 times.
	envFuncs["encoding/binary.ReadUvarint"] = func(fc *FnCtx, fr *Frame, st *State, reach string, args []Val, call ssa.CallInstruction) Val {
		resT := call.Common().Signature().Results()
		r := args[0]
		rbT := fc.eng.lookupType("github.com/uber/tchannel-go/typed", "ReadBuffer")
		if rbT != nil && r.Tag == fc.tagOf(types.NewPointer(rbT)) {
			obj := &Addr{Kind: AObj, Base: r.S, Root: rbT, T: rbT}
			st2 := structOf(rbT)
			var remA, errA *Addr
			for i := 0; i < st2.NumFields(); i++ {
				a := *obj
				a.Path = []int{i}
				a.T = st2.Field(i).Type()
				switch st2.Field(i).Name() {
				case "remaining":
					remA = &a
				case "err":
					errA = &a
				}
			}
			oldRem := fc.load(st, remA)
			oldErr := fc.load(st, errA)
			k := fc.sc.fresh("uvk", "Int")
			fc.sc.assume(tAnd(sx("<=", "0", k), sx("<=", k, "10"), sx("<=", k, oldRem.Len), tImp(tNot(tEq(oldErr.Tag, "0")), tEq(k, "0"))))
			nr := oldRem
			nr.Off, nr.Len, nr.Cap = tAdd(oldRem.Off, k), tSub(oldRem.Len, k), tSub(oldRem.Cap, k)
			fc.store(st, remA, fc.nameVal(nr, "uvrem"))
			ne := fc.freshVal(st, errA.T, "uverr")
			fc.sc.assume(tImp(tNot(tEq(oldErr.Tag, "0")), tAnd(tEq(ne.Tag, oldErr.Tag), tEq(ne.S, oldErr.S))))
			fc.store(st, errA, ne)
			return fc.freshVal(st, resultType(resT), "uvarint")
		}
		return fc.unknownCall(fr, st, reach, "encoding/binary.ReadUvarint", resT, args, false)
	}
	envFuncs["encoding/binary.PutUvarint"] = func(fc *FnCtx, fr *Frame, st *State, reach string, args []Val, call ssa.CallInstruction) Val {
		b := args[0]
		n := fc.sc.fresh("uvn", "Int")
		// PutUvarint panics if the buffer is too small: 10 bytes always suffice
		fc.oblige(fr, "index", "binary.PutUvarint: buffer of at least 10 bytes", reach, sx(">=", b.Len, "10"), false, nil)
		fc.sc.assume(tAnd(sx("<=", "1", n), sx("<=", n, "10")))
		fc.havocElems(st, b)
		// the canonical LEB128 encoding: every byte but the last has the
		// continuation bit, the last has not (and is non-zero unless it is the only
		// one), and the 7-bit groups add up to the value
		fc.byteAxiom(fc.elemArray(st, b))
		inner := tSel(fc.elemArray(st, b), b.Arr)
		sum := "0"
		var facts []string
		for i := 0; i < 10; i++ {
			bi := tSel(inner, tAdd(b.Off, num(int64(i))))
			in := sx("<", num(int64(i)), n)
			last := tEq(num(int64(i)), sx("-", n, "1"))
			facts = append(facts, tImp(tAnd(in, tNot(last)), sx(">=", bi, "128")))
			facts = append(facts, tImp(last, tAnd(sx("<", bi, "128"), tOr(tEq(n, "1"), sx(">=", bi, "1")))))
			sum = sx("+", sum, tIte(in, sx("*", sx("mod", bi, "128"), pow2(int64(7*i)).String()), "0"))
		}
		if len(args) > 1 {
			facts = append(facts, tEq(sum, args[1].S))
		}
		fc.sc.assume(tAnd(facts...))
		return intVal(types.Typ[types.Int], n)
	}
}

// ---- time.Time: an instant is modelled by its Unix nanoseconds tnanos(wall, ext) ----

func tnanos(fc *FnCtx, t Val) string {
	fc.sc.declareFun("tnanos", []string{"Int", "Int"}, "Int")
	if t.K != KStruct || len(t.Fs) < 2 {
		unsup("time value of kind %d", t.K)
	}
	return sx("tnanos", t.Fs[0].S, t.Fs[1].S)
}

func freshTime(fc *FnCtx, st *State, tt types.Type, nanos string) Val {
	v := fc.freshVal(st, tt, "time")
	if nanos != "" {
		fc.sc.assume(tEq(tnanos(fc, v), nanos))
	}
	return v
}

const maxI64 = "9223372036854775807"
const minI64 = "(- 9223372036854775808)"

func timeEnv() {
	res := func(call ssa.CallInstruction) types.Type { return resultType(call.Common().Signature().Results()) }
	envFuncs["time.Now"] = func(fc *FnCtx, fr *Frame, st *State, reach string, args []Val, call ssa.CallInstruction) Val {
		return freshTime(fc, st, res(call), "")
	}
	envFuncs["time.Unix"] = func(fc *FnCtx, fr *Frame, st *State, reach string, args []Val, call ssa.CallInstruction) Val {
		return freshTime(fc, st, res(call), sx("+", sx("*", args[0].S, "1000000000"), args[1].S))
	}
	envFuncs["(time.Time).UnixNano"] = func(fc *FnCtx, fr *Frame, st *State, reach string, args []Val, call ssa.CallInstruction) Val {
		return intVal(res(call), wrapTerm(types.Typ[types.Int64], tnanos(fc, args[0])))
	}
	envFuncs["(time.Time).Before"] = func(fc *FnCtx, fr *Frame, st *State, reach string, args []Val, call ssa.CallInstruction) Val {
		return boolVal(sx("<", tnanos(fc, args[0]), tnanos(fc, args[1])))
	}
	envFuncs["(time.Time).After"] = func(fc *FnCtx, fr *Frame, st *State, reach string, args []Val, call ssa.CallInstruction) Val {
		return boolVal(sx(">", tnanos(fc, args[0]), tnanos(fc, args[1])))
	}
	envFuncs["(time.Time).Equal"] = func(fc *FnCtx, fr *Frame, st *State, reach string, args []Val, call ssa.CallInstruction) Val {
		return boolVal(tEq(tnanos(fc, args[0]), tnanos(fc, args[1])))
	}
	envFuncs["(time.Time).Sub"] = func(fc *FnCtx, fr *Frame, st *State, reach string, args []Val, call ssa.CallInstruction) Val {
		d := fc.nameTerm("tsub", "Int", sx("-", tnanos(fc, args[0]), tnanos(fc, args[1])))
		// saturating, as in package time
		return intVal(res(call), tIte(sx(">", d, maxI64), maxI64, tIte(sx("<", d, minI64), minI64, d)))
	}
	envFuncs["(time.Time).Add"] = func(fc *FnCtx, fr *Frame, st *State, reach string, args []Val, call ssa.CallInstruction) Val {
		return freshTime(fc, st, res(call), sx("+", tnanos(fc, args[0]), args[1].S))
	}
	// timers and tickers created by package time exist (T3)
	for _, n := range []string{"time.NewTimer", "time.NewTicker", "time.AfterFunc"} {
		envFuncs[n] = func(fc *FnCtx, fr *Frame, st *State, reach string, args []Val, call ssa.CallInstruction) Val {
			v := fc.freshVal(st, res(call), "timer")
			if v.K == KAddr && v.A != nil {
				fc.sc.assume(tAnd(tNot(tEq(v.A.Base, "0")), tSel(fc.alloc(st), v.A.Base)))
				fc.nonNil[v.A.Base] = true
			}
			return v
		}
	}
	envFuncs["time.Since"] = func(fc *FnCtx, fr *Frame, st *State, reach string, args []Val, call ssa.CallInstruction) Val {
		now := freshTime(fc, st, args[0].T, "")
		d := fc.nameTerm("tsince", "Int", sx("-", tnanos(fc, now), tnanos(fc, args[0])))
		return intVal(res(call), tIte(sx(">", d, maxI64), maxI64, tIte(sx("<", d, minI64), minI64, d)))
	}
}

// ---- context.Context: deadline as a stable function of the context value ----
// ctxdl(v) = deadline in Unix nanoseconds, ctxhasdl(v) = whether there is one.
// WithTimeout/WithDeadline give min(parent, requested); WithCancel/WithValue
// inherit; Background has none. Err()/Done() stay arbitrary.

func ctxDl(fc *FnCtx, ctx Val) (dl, has string) {
	fc.sc.declareFun("ctxdl", []string{"Int"}, "Int")
	fc.sc.declareFun("ctxhasdl", []string{"Int"}, "Bool")
	return sx("ctxdl", ctx.S), sx("ctxhasdl", ctx.S)
}

// ctxErrVal: the (non-nil) error a context reports once it is done.
func ctxErrVal(fc *FnCtx, ctx Val, errT types.Type) Val {
	fc.sc.declareFun("ctxerrtag", []string{"Int"}, "Int")
	fc.sc.declareFun("ctxerrval", []string{"Int"}, "Int")
	tag, val := sx("ctxerrtag", ctx.S), sx("ctxerrval", ctx.S)
	fc.sc.assume(sx(">", tag, "0"))
	return Val{K: KIface, T: errT, Tag: tag, S: val}
}

func freshCtx(fc *FnCtx, st *State, t types.Type) Val {
	v := fc.freshVal(st, t, "ctx")
	fc.sc.assume(tNot(tEq(v.Tag, "0")))
	return v
}

func contextEnv() {
	for _, pkg := range []string{"context", "golang.org/x/net/context"} {
		pkg := pkg
		envInvoke[pkg+".Context.Done"] = func(fc *FnCtx, fr *Frame, st *State, reach string, recv Val, args []Val, call ssa.CallInstruction) Val {
			v := fc.freshVal(st, resultType(call.Common().Signature().Results()), "done")
			v.Orig = "ctx.Done"
			return v
		}
		// Err(): nil, or THE error of this context (contexts report the same error
		// on every call once they are done): a stable pair of ghost functions
		envInvoke[pkg+".Context.Err"] = func(fc *FnCtx, fr *Frame, st *State, reach string, recv Val, args []Val, call ssa.CallInstruction) Val {
			v := fc.freshVal(st, resultType(call.Common().Signature().Results()), "ctxerr")
			e := ctxErrVal(fc, recv, v.T)
			fc.sc.assume(tOr(tEq(v.Tag, "0"), tAnd(tEq(v.Tag, e.Tag), tEq(v.S, e.S))))
			return v
		}
		envInvoke[pkg+".Context.Deadline"] = func(fc *FnCtx, fr *Frame, st *State, reach string, recv Val, args []Val, call ssa.CallInstruction) Val {
			tu := call.Common().Signature().Results()
			dl, has := ctxDl(fc, recv)
			t := freshTime(fc, st, tu.At(0).Type(), dl)
			return Val{K: KTuple, T: tu, Fs: []Val{t, boolVal(has)}}
		}
		withDl := func(fc *FnCtx, st *State, call ssa.CallInstruction, parent Val, want string) Val {
			tu := call.Common().Signature().Results()
			c := freshCtx(fc, st, tu.At(0).Type())
			pdl, phas := ctxDl(fc, parent)
			cdl, chas := ctxDl(fc, c)
			if want == "" {
				fc.sc.assume(tAnd(tEq(chas, phas), tEq(cdl, pdl)))
			} else {
				fc.sc.assume(tAnd(chas, tEq(cdl, tIte(tAnd(phas, sx("<", pdl, want)), pdl, want))))
			}
			cancel := fc.freshVal(st, tu.At(1).Type(), "cancel")
			fc.sc.assume(tNot(tEq(cancel.S, "0")))
			return Val{K: KTuple, T: tu, Fs: []Val{c, cancel}}
		}
		envFuncs[pkg+".WithTimeout"] = func(fc *FnCtx, fr *Frame, st *State, reach string, args []Val, call ssa.CallInstruction) Val {
			now := fc.sc.fresh("ctxnow", "Int")
			fc.sc.declare("g_lastnow", "Int")
			return withDl(fc, st, call, args[0], sx("+", now, args[1].S))
		}
		envFuncs[pkg+".WithDeadline"] = func(fc *FnCtx, fr *Frame, st *State, reach string, args []Val, call ssa.CallInstruction) Val {
			return withDl(fc, st, call, args[0], tnanos(fc, args[1]))
		}
		envFuncs[pkg+".WithCancel"] = func(fc *FnCtx, fr *Frame, st *State, reach string, args []Val, call ssa.CallInstruction) Val {
			return withDl(fc, st, call, args[0], "")
		}
		envFuncs[pkg+".WithValue"] = func(fc *FnCtx, fr *Frame, st *State, reach string, args []Val, call ssa.CallInstruction) Val {
			c := freshCtx(fc, st, call.Common().Signature().Results().At(0).Type())
			pdl, phas := ctxDl(fc, args[0])
			cdl, chas := ctxDl(fc, c)
			fc.sc.assume(tAnd(tEq(chas, phas), tEq(cdl, pdl)))
			return c
		}
		envFuncs[pkg+".Background"] = func(fc *FnCtx, fr *Frame, st *State, reach string, args []Val, call ssa.CallInstruction) Val {
			c := freshCtx(fc, st, call.Common().Signature().Results().At(0).Type())
			_, chas := ctxDl(fc, c)
			fc.sc.assume(tNot(chas))
			return c
		}
	}
}
