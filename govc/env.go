package main

// Environment contracts (T3): Go-implemented models of standard-library
// functions the verified code depends on. Each use is recorded as an
// assumption in evidence.

import (
	"go/types"

	"golang.org/x/tools/go/ssa"
)

type envFn func(fc *FnCtx, fr *Frame, st *State, reach string, args []Val, call ssa.CallInstruction) Val
type envInv func(fc *FnCtx, fr *Frame, st *State, reach string, recv Val, args []Val, call ssa.CallInstruction) Val

var envFuncs map[string]envFn
var envInvoke map[string]envInv

func unit() Val { return Val{K: KTuple, T: types.NewTuple()} }

func init() {
	envFuncs = map[string]envFn{}
	envInvoke = map[string]envInv{}
	for _, w := range []struct {
		n string
		k int
		t types.BasicKind
	}{{"Uint16", 2, types.Uint16}, {"Uint32", 4, types.Uint32}, {"Uint64", 8, types.Uint64}} {
		w := w
		envFuncs["(encoding/binary.bigEndian)."+w.n] = func(fc *FnCtx, fr *Frame, st *State, reach string, args []Val, call ssa.CallInstruction) Val {
			b := args[len(args)-1]
			fc.oblige(fr, "index", "binary.BigEndian."+w.n+": "+fc.exprAt(fr, call.Pos(), isCall), reach, sx(">=", b.Len, num(int64(w.k))), false, nil)
			return intVal(types.Typ[w.t], fc.nameTerm("be", "Int", beTerm(fc, st, b, "0", w.k)))
		}
		envFuncs["(encoding/binary.bigEndian).Put"+w.n] = func(fc *FnCtx, fr *Frame, st *State, reach string, args []Val, call ssa.CallInstruction) Val {
			b, v := args[len(args)-2], args[len(args)-1]
			fc.oblige(fr, "index", "binary.BigEndian.Put"+w.n+": "+fc.exprAt(fr, call.Pos(), isCall), reach, sx(">=", b.Len, num(int64(w.k))), false, nil)
			name := "M$" + typeName(types.Typ[types.Uint8]) + "$"
			l := loc{name: name, idx: []string{"", ""}, sort: "Int"}
			cur := fc.heapTerm(st, name, l.arraySort())
			inner := tSel(cur, b.Arr)
			for k := 0; k < w.k; k++ {
				shift := pow2(int64(8 * (w.k - 1 - k))).String()
				byteV := sx("mod", sx("div", v.S, shift), "256")
				inner = tStore(inner, tAdd(b.Off, num(int64(k))), byteV)
			}
			st.heap[name] = fc.nameTerm("hp", l.arraySort(), tStore(cur, b.Arr, inner))
			fc.noteWrite(name)
			return unit()
		}
	}
	nop := func(fc *FnCtx, fr *Frame, st *State, reach string, args []Val, call ssa.CallInstruction) Val {
		return unit()
	}
	for _, n := range []string{"(*sync.Mutex).Lock", "(*sync.Mutex).Unlock", "(*sync.RWMutex).Lock", "(*sync.RWMutex).Unlock", "(*sync.RWMutex).RLock", "(*sync.RWMutex).RUnlock"} {
		n := n
		envFuncs[n] = func(fc *FnCtx, fr *Frame, st *State, reach string, args []Val, call ssa.CallInstruction) Val {
			fc.lockOp(fr, st, reach, n, args[0], call)
			return unit()
		}
	}
	_ = nop
	envFuncs["errors.New"] = func(fc *FnCtx, fr *Frame, st *State, reach string, args []Val, call ssa.CallInstruction) Val {
		v := fc.freshVal(st, call.Common().Signature().Results().At(0).Type(), "err")
		fc.sc.assume(tNot(tEq(v.Tag, "0")))
		return v
	}
	envFuncs["fmt.Errorf"] = envFuncs["errors.New"]
}
