package main

import (
	"go/types"

	"golang.org/x/tools/go/ssa"
)

// Maps: a map value is a reference; contents live in
//   MD$<K>$<V>          : Array Int (Array K Bool)   domain
//   MV$<K>$<V><suffix>  : Array Int (Array K leaf)   values (flattened)
//   ML$                 : Array Int Int              len

func (fc *FnCtx) mapNames(mt *types.Map) (dom string, valBase string, ksort string) {
	k := kindOf(mt.Key())
	switch k {
	case KInt, KStr, KBool:
	default:
		unsup("map key type %s", mt.Key())
	}
	ksort = sortOfKind(k)
	n := typeName(mt.Key()) + "$" + typeName(mt.Elem())
	return "MD$" + n, "MV$" + n, ksort
}

func (fc *FnCtx) makeMap(st *State, t types.Type) Val {
	mt := t.Underlying().(*types.Map)
	dom, _, ks := fc.mapNames(mt)
	ref := fc.newRef(st, "map")
	dl := loc{name: dom, idx: []string{ref}, sort: "(Array " + ks + " Bool)"}
	fc.storeLoc(st, dl, "((as const (Array "+ks+" Bool)) false)")
	fc.storeLoc(st, loc{name: "ML$", idx: []string{ref}, sort: "Int"}, "0")
	return intVal(t, ref)
}

func (fc *FnCtx) mapLen(st *State, m Val) string {
	l := fc.loadLoc(st, loc{name: "ML$", idx: []string{m.S}, sort: "Int"})
	fc.sc.assume(sx("<=", "0", l))
	return tIte(tEq(m.S, "0"), "0", l)
}

func (fc *FnCtx) mapHas(st *State, m Val, k Val) string {
	mt := m.T.Underlying().(*types.Map)
	dom, _, ks := fc.mapNames(mt)
	d := fc.loadLoc(st, loc{name: dom, idx: []string{m.S}, sort: "(Array " + ks + " Bool)"})
	return tAnd(tNot(tEq(m.S, "0")), tSel(d, k.S))
}

func (fc *FnCtx) mapGet(st *State, m Val, k Val) Val {
	mt := m.T.Underlying().(*types.Map)
	_, vb, ks := fc.mapNames(mt)
	v := buildVal(mt.Elem(), "", func(suffix, sort string, t types.Type) string {
		inner := fc.loadLoc(st, loc{name: vb + suffix, idx: []string{m.S}, sort: "(Array " + ks + " " + sort + ")"})
		return tSel(inner, k.S)
	})
	return v
}

func (fc *FnCtx) lookup(fr *Frame, st *State, reach string, t *ssa.Lookup) Val {
	x := fc.value(fr, st, t.X)
	k := fc.value(fr, st, t.Index)
	if x.K == KStr {
		text := fc.exprAt(fr, t.Pos(), isIndex)
		fc.oblige(fr, "index", text, reach, tAnd(sx("<=", "0", k.S), sx("<", k.S, sx("str.len", x.S))), false, nil)
		return intVal(t.Type(), sx("str.to_code", sx("str.at", x.S, k.S)))
	}
	mt := x.T.Underlying().(*types.Map)
	if k.K == KIface {
		unsup("interface map key")
	}
	has := fc.nameTerm("has", "Bool", fc.mapHas(st, x, k))
	v := fc.mapGet(st, x, k)
	fc.sc.assume(tImp(has, fc.typeInv(st, v)))
	v = fc.nameVal(fc.mergeVal(has, v, zeroVal(mt.Elem())), "mv")
	if v.K == KAddr && len(fc.eng.structInvs) > 0 && fc.quiet == 0 {
		fc.assumeStructInv(st, v) // (guarded by "pointer is non-nil" inside)
	}
	if t.CommaOk {
		return Val{K: KTuple, T: t.Type(), Fs: []Val{v, boolVal(has)}}
	}
	return v
}

func (fc *FnCtx) mapUpdate(fr *Frame, st *State, reach string, t *ssa.MapUpdate) {
	m := fc.value(fr, st, t.Map)
	k := fc.value(fr, st, t.Key)
	v := fc.value(fr, st, t.Value)
	fc.oblige(fr, "nilmap", fc.exprAt(fr, t.Pos(), isIndex), reach, tNot(tEq(m.S, "0")), false, nil)
	fc.mapStore(st, m, k, v)
}

func (fc *FnCtx) mapStore(st *State, m, k, v Val) {
	mt := m.T.Underlying().(*types.Map)
	dom, vb, ks := fc.mapNames(mt)
	dl := loc{name: dom, idx: []string{m.S}, sort: "(Array " + ks + " Bool)"}
	d := fc.loadLoc(st, dl)
	had := tSel(d, k.S)
	ll := loc{name: "ML$", idx: []string{m.S}, sort: "Int"}
	fc.storeLoc(st, ll, tAdd(fc.loadLoc(st, ll), tIte(had, "0", "1")))
	fc.storeLoc(st, dl, tStore(d, k.S, "true"))
	walkVal(fc.storable(v), "", func(suffix, sort, term string, _ types.Type) {
		l := loc{name: vb + suffix, idx: []string{m.S}, sort: "(Array " + ks + " " + sort + ")"}
		fc.storeLoc(st, l, tStore(fc.loadLoc(st, l), k.S, term))
	})
}

func (fc *FnCtx) mapDelete(fr *Frame, st *State, reach string, m, k Val) {
	mt := m.T.Underlying().(*types.Map)
	dom, _, ks := fc.mapNames(mt)
	isNil := tEq(m.S, "0")
	before := st.clone()
	dl := loc{name: dom, idx: []string{m.S}, sort: "(Array " + ks + " Bool)"}
	d := fc.loadLoc(st, dl)
	had := tSel(d, k.S)
	ll := loc{name: "ML$", idx: []string{m.S}, sort: "Int"}
	fc.storeLoc(st, ll, tSub(fc.loadLoc(st, ll), tIte(had, "1", "0")))
	fc.storeLoc(st, dl, tStore(d, k.S, "false"))
	if isNil != "false" {
		merged := fc.mergeStates(isNil, before, st)
		*st = *merged
	}
}

// ---------- range ----------

func (fc *FnCtx) rangeInit(fr *Frame, st *State, t *ssa.Range) Val {
	x := fc.value(fr, st, t.X)
	return x // the iterator carries the ranged value
}

func (fc *FnCtx) rangeNext(fr *Frame, st *State, t *ssa.Next) Val {
	it := fc.value(fr, st, t.Iter)
	tu := t.Type().(*types.Tuple)
	ok := fc.sc.fresh("nextok", "Bool")
	if t.IsString {
		i := fc.sc.fresh("ri", "Int")
		r := fc.sc.fresh("rune", "Int")
		fc.sc.assume(tImp(ok, tAnd(sx("<=", "0", i), sx("<", i, sx("str.len", it.S)), sx("<=", "0", r), sx("<=", r, "1114111"))))
		return Val{K: KTuple, T: tu, Fs: []Val{boolVal(ok), intVal(tu.At(1).Type(), i), intVal(tu.At(2).Type(), r)}}
	}
	mt := it.T.Underlying().(*types.Map)
	k := fc.freshVal(st, mt.Key(), "rk")
	has := fc.mapHas(st, it, k)
	fc.sc.assume(tImp(ok, has))
	v := fc.mapGet(st, it, k)
	fc.sc.assume(tImp(ok, fc.typeInv(st, v)))
	fc.assumption("map range: each iteration sees an arbitrary present key (no visited-set reasoning)")
	return Val{K: KTuple, T: tu, Fs: []Val{boolVal(ok), retype(k, tu.At(1).Type()), fc.nameVal(retype(v, tu.At(2).Type()), "rv")}}
}
