package main

// Heap / state model.
//
//   H$<RootType>$<field.path><suffix> : Array Int X            object fields
//   H$...                              : Array Int (Array Int X) fixed-array fields (indexed [ref][i])
//   M$<ElemType>$<field.path><suffix> : Array Int (Array Int X) slice element memory, [arr][abs index]
//   G$<pkg.name>$<path><suffix>       : X or (Array Int X)      package-level variables
//   Alloc                              : Array Int Bool          allocated refs / array ids
//
// A State maps each such name to its current SMT term.

import (
	"fmt"
	"go/types"
	"sort"
	"strings"

	"golang.org/x/tools/go/ssa"
)

type deferred struct {
	cond  string
	frame *Frame
	block *ssa.BasicBlock
	run   func(fc *FnCtx, st *State, reach string)
}

type State struct {
	heap     map[string]string
	ep       *epoch // initial values of names not in heap
	cells    map[int]Val
	defers   []deferred
	locks    map[string]string // monitor key -> Bool term "held"
	lockSnap map[string]*State // monitor key -> state at write-lock acquisition
	nbLocks  map[string]string // non-blocking lock class key -> Bool term "held"
	calls    map[string]string // callee name -> Int term: calls made so far in the function's own body (spec helper calls(F))
}

func newState(ep *epoch) *State {
	return &State{heap: map[string]string{}, ep: ep, cells: map[int]Val{}, locks: map[string]string{}}
}

func (s *State) clone() *State {
	n := &State{heap: make(map[string]string, len(s.heap)), ep: s.ep, cells: make(map[int]Val, len(s.cells)), locks: make(map[string]string, len(s.locks))}
	for k, v := range s.heap {
		n.heap[k] = v
	}
	for k, v := range s.cells {
		n.cells[k] = v
	}
	for k, v := range s.locks {
		n.locks[k] = v
	}
	n.defers = append([]deferred{}, s.defers...)
	if s.calls != nil {
		n.calls = make(map[string]string, len(s.calls))
		for k, v := range s.calls {
			n.calls[k] = v
		}
	}
	if s.nbLocks != nil {
		n.nbLocks = make(map[string]string, len(s.nbLocks))
		for k, v := range s.nbLocks {
			n.nbLocks[k] = v
		}
	}
	if s.lockSnap != nil {
		n.lockSnap = make(map[string]*State, len(s.lockSnap))
		for k, v := range s.lockSnap {
			n.lockSnap[k] = v
		}
	}
	return n
}

// loc is one scalar heap location.
type loc struct {
	name string
	idx  []string
	sort string // element sort
	t    types.Type
}

func (l loc) arraySort() string {
	s := l.sort
	for range l.idx {
		s = "(Array Int " + s + ")"
	}
	return s
}

// heapTerm returns the current term for a heap name, creating the initial
// symbolic array on first use.
func (fc *FnCtx) heapTerm(st *State, name, sort string) string {
	if t, ok := st.heap[name]; ok {
		return t
	}
	// first touch: the value the name had at the state's epoch.
	if sort == "" {
		sort = fc.sorts[name]
	}
	if old, ok := fc.sorts[name]; ok && old != sort {
		panic("heap sort mismatch for " + name + ": " + old + " vs " + sort)
	}
	fc.sorts[name] = sort
	c := fc.epochTerm(st.ep, name, sort)
	st.heap[name] = c
	return c
}

func (fc *FnCtx) loadLoc(st *State, l loc) string {
	t := fc.heapTerm(st, l.name, l.arraySort())
	for _, i := range l.idx {
		t = tSel(t, i)
	}
	return t
}

func (fc *FnCtx) storeLoc(st *State, l loc, v string) {
	cur := fc.heapTerm(st, l.name, l.arraySort())
	var nt string
	switch len(l.idx) {
	case 0:
		nt = v
	case 1:
		nt = tStore(cur, l.idx[0], v)
	case 2:
		nt = tStore(cur, l.idx[0], tStore(tSel(cur, l.idx[0]), l.idx[1], v))
	default:
		panic("storeLoc: too many indices")
	}
	st.heap[l.name] = fc.nameTerm("h", l.arraySort(), nt)
	fc.noteWrite(l.name)
}

// nameTerm introduces a fresh constant equal to t (keeps terms small).
func (fc *FnCtx) nameTerm(prefix, sort, t string) string {
	if len(t) < 40 {
		return t
	}
	if fc.named == nil {
		fc.named = map[string]string{}
	}
	if c, ok := fc.named[sort+"|"+t]; ok {
		return c // the same term always gets the same name (lock keys and contract terms rely on it)
	}
	c := fc.sc.fresh(prefix, sort)
	fc.sc.assume(tEq(c, t))
	fc.named[sort+"|"+t] = c
	return c
}

// leafLocs flattens the pointee of an address into scalar locations.
// suffix components: slices .arr/.off/.len/.cap, interfaces .tag/.val.
func (fc *FnCtx) addrBase(a *Addr) (name string, idx []string) {
	switch a.Kind {
	case AObj:
		p, _ := pathName(a.Root, a.Path)
		name = "H$" + typeName(a.Root) + "$" + p
		idx = []string{a.Base}
		if a.Idx != "" {
			idx = append(idx, a.Idx)
		}
	case AElem:
		p, _ := pathName(a.ElemT, a.Path)
		name = "M$" + typeName(a.ElemT) + "$" + p
		idx = []string{a.Base, a.Idx}
	case AGlobal:
		p, _ := pathName(a.Root, a.Path)
		name = "G$" + sanitize(a.Global.Pkg.Pkg.Name()+"."+a.Global.Name()) + "$" + p
		if a.Idx != "" {
			idx = []string{a.Idx}
		}
		if !fc.eng.mutableGlobal[a.Global] {
			fc.immut["G$"+sanitize(a.Global.Pkg.Pkg.Name()+"."+a.Global.Name())+"$"] = true
		}
	case AOpaque:
		// pointers to non-struct values that are not interior pointers into a
		// tracked object: one memory per pointee type, indexed by the pointer
		name = "BX$" + typeName(a.T) + "$"
		idx = []string{a.Base}
	default:
		panic("addrBase: bad kind")
	}
	return
}

// pathName walks struct fields; an array step is transparent (the path
// continues inside the element type).
func pathName(root types.Type, path []int) (string, types.Type) {
	t := root
	var parts []string
	for _, i := range path {
		if arr, ok := t.Underlying().(*types.Array); ok {
			t = arr.Elem()
		}
		st := structOf(t)
		if st == nil {
			panic(fmt.Sprintf("pathName: not a struct: %v (path %v of %v)", t, path, root))
		}
		f := st.Field(i)
		parts = append(parts, f.Name())
		t = f.Type()
	}
	return strings.Join(parts, "."), t
}

type leafFn func(suffix string, sort string, t types.Type) string

// buildVal constructs a Val of type t by asking for each scalar leaf.
func buildVal(t types.Type, suffix string, leaf leafFn) Val {
	switch kindOf(t) {
	case KInt, KFloat:
		return Val{K: kindOf(t), T: t, S: leaf(suffix, "Int", t)}
	case KBool:
		return Val{K: KBool, T: t, S: leaf(suffix, "Bool", t)}
	case KStr:
		return Val{K: KStr, T: t, S: leaf(suffix, "String", t)}
	case KSlice:
		it := types.Typ[types.Int]
		return Val{K: KSlice, T: t, Arr: leaf(suffix+".arr", "Int", it), Off: leaf(suffix+".off", "Int", it), Len: leaf(suffix+".len", "Int", it), Cap: leaf(suffix+".cap", "Int", it)}
	case KIface:
		it := types.Typ[types.Int]
		return Val{K: KIface, T: t, Tag: leaf(suffix+".tag", "Int", it), S: leaf(suffix+".val", "Int", it)}
	case KFunc:
		return Val{K: KFunc, T: t, S: leaf(suffix+".fn", "Int", types.Typ[types.Int])}
	case KAddr:
		pt := t.Underlying().(*types.Pointer)
		ref := leaf(suffix, "Int", t)
		if _, isStruct := pt.Elem().Underlying().(*types.Struct); isStruct {
			return Val{K: KAddr, T: t, A: &Addr{Kind: AObj, Base: ref, Root: pt.Elem(), T: pt.Elem()}}
		}
		if arr, ok := pt.Elem().Underlying().(*types.Array); ok {
			return Val{K: KAddr, T: t, A: &Addr{Kind: AElem, Base: ref, Idx: "", ElemT: arr.Elem(), T: pt.Elem()}}
		}
		return Val{K: KAddr, T: t, A: &Addr{Kind: AOpaque, Base: ref, T: pt.Elem()}}
	case KStruct:
		st := t.Underlying().(*types.Struct)
		v := Val{K: KStruct, T: t}
		for i := 0; i < st.NumFields(); i++ {
			f := st.Field(i)
			v.Fs = append(v.Fs, buildVal(f.Type(), suffix+"."+f.Name(), leaf))
		}
		return v
	case KTuple:
		tu := t.(*types.Tuple)
		v := Val{K: KTuple, T: t}
		for i := 0; i < tu.Len(); i++ {
			v.Fs = append(v.Fs, buildVal(tu.At(i).Type(), fmt.Sprintf("%s.%d", suffix, i), leaf))
		}
		return v
	case KArray:
		// fixed arrays as values: opaque array term over Int leaves only
		return Val{K: KArray, T: t, S: leaf(suffix+".av", "(Array Int Int)", t)}
	}
	panic("buildVal: kind")
}

// walkVal visits scalar leaves of a Val in the same order/suffixes as buildVal.
func walkVal(v Val, suffix string, f func(suffix, sort, term string, t types.Type)) {
	it := types.Typ[types.Int]
	switch v.K {
	case KInt, KFloat:
		f(suffix, "Int", v.S, v.T)
	case KBool:
		f(suffix, "Bool", v.S, v.T)
	case KStr:
		f(suffix, "String", v.S, v.T)
	case KSlice:
		f(suffix+".arr", "Int", v.Arr, it)
		f(suffix+".off", "Int", v.Off, it)
		f(suffix+".len", "Int", v.Len, it)
		f(suffix+".cap", "Int", v.Cap, it)
	case KIface:
		f(suffix+".tag", "Int", v.Tag, it)
		f(suffix+".val", "Int", v.S, it)
	case KFunc:
		f(suffix+".fn", "Int", v.S, it)
	case KAddr:
		f(suffix, "Int", v.A.Base, v.T)
	case KStruct:
		st := v.T.Underlying().(*types.Struct)
		for i := range v.Fs {
			walkVal(v.Fs[i], suffix+"."+st.Field(i).Name(), f)
		}
	case KTuple:
		for i := range v.Fs {
			walkVal(v.Fs[i], fmt.Sprintf("%s.%d", suffix, i), f)
		}
	case KArray:
		f(suffix+".av", "(Array Int Int)", v.S, v.T)
	}
}

func sortedKeys(m map[string]string) []string {
	ks := make([]string, 0, len(m))
	for k := range m {
		ks = append(ks, k)
	}
	sort.Strings(ks)
	return ks
}

// lname joins a heap-name base and a leaf suffix canonically.
func lname(base, suffix string) string {
	if strings.HasSuffix(base, "$") && strings.HasPrefix(suffix, ".") {
		return base + suffix[1:]
	}
	return base + suffix
}
