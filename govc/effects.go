package main

import (
	"go/token"
	"go/types"
	"strings"

	"golang.org/x/tools/go/ssa"
)

// inferEffects proposes `effect nonblocking` for functions under a verified
// contract that declare no effect class and whose bodies, syntactically,
// contain no operation the blocking discipline treats as blocking (channel
// send/receive, blocking select, acquiring a lock outside the non-blocking
// classes, blocking library calls, calls of functions that are not themselves
// non-blocking). The proposal is not trusted: the function's own verification
// then generates the usual `#blocking` obligations for it.
func (e *Engine) inferEffects() {
	memo := map[*ssa.Function]int{} // 1 in progress / yes, 2 no
	var nb func(fn *ssa.Function, depth int) bool
	nb = func(fn *ssa.Function, depth int) bool {
		if fn == nil {
			return true
		}
		switch memo[fn] {
		case 1:
			return true
		case 2:
			return false
		}
		name := fn.String()
		if con := e.contracts[name]; con != nil {
			switch con.Effect {
			case "nonblocking":
				return true
			case "bounded":
				return false
			}
			if con.Trusted {
				// assumed contracts on library functions: only the listed library calls block
				return !e.inRepo(fn) && !blockingExternal(name)
			}
		}
		if _, ok := envFuncs[name]; ok {
			return true
		}
		if len(fn.Blocks) == 0 {
			return !blockingExternal(name)
		}
		if !e.inRepo(fn) {
			// library code with a body: only the listed calls block
			return !blockingExternal(name)
		}
		if depth > 12 {
			return false
		}
		memo[fn] = 1
		ok := true
		for _, b := range fn.Blocks {
			for _, ins := range b.Instrs {
				switch t := ins.(type) {
				case *ssa.Send:
					ok = false
				case *ssa.UnOp:
					if t.Op == token.ARROW {
						ok = false
					}
				case *ssa.Select:
					if t.Blocking {
						ok = false
					}
				case ssa.CallInstruction:
					if _, isGo := ins.(*ssa.Go); isGo {
						continue
					}
					callee := t.Common().StaticCallee()
					if callee == nil {
						continue // dynamic calls: not part of the discipline (T4)
					}
					cn := callee.String()
					if strings.HasSuffix(cn, "Mutex).Lock") || strings.HasSuffix(cn, "Mutex).RLock") {
						if len(t.Common().Args) == 0 || !e.lockClasses[staticLockClass(t.Common().Args[0])] {
							ok = false
						}
						continue
					}
					if !nb(callee, depth+1) {
						ok = false
					}
				}
			}
		}
		if ok {
			memo[fn] = 1
		} else {
			memo[fn] = 2
		}
		return ok
	}
	for _, k := range e.contractOrder {
		con := e.contracts[k]
		fn := e.funcs[k]
		if con == nil || fn == nil || con.Effect != "" || con.Trusted || con.IsIface || con.Inline {
			continue
		}
		if nb(fn, 0) {
			con.Effect = "nonblocking"
			con.EffectInferred = true
		}
	}
}

// staticLockClass: "pkg.Type.path" of a mutex operand that is a field-address
// chain rooted at a pointer to a named struct ("" if it is not).
func staticLockClass(v ssa.Value) string {
	var names []string
	for {
		fa, ok := v.(*ssa.FieldAddr)
		if !ok {
			return ""
		}
		pt, ok := fa.X.Type().Underlying().(*types.Pointer)
		if !ok {
			return ""
		}
		st := structOf(pt.Elem())
		if st == nil {
			return ""
		}
		names = append([]string{st.Field(fa.Field).Name()}, names...)
		if n := namedOf(pt.Elem()); n != nil && n.Obj().Pkg() != nil {
			if _, inner := fa.X.(*ssa.FieldAddr); !inner {
				return n.Obj().Pkg().Path() + "." + n.Obj().Name() + "." + strings.Join(names, ".")
			}
		}
		v = fa.X
	}
}
