package main

import (
	"bytes"
	"context"
	"fmt"
	"go/ast"
	"go/token"
	"go/types"
	"hash/fnv"
	"os"
	"os/exec"
	"path/filepath"
	"regexp"
	"sort"
	"strconv"
	"strings"
	"sync"
	"sync/atomic"
	"time"

	"golang.org/x/tools/go/packages"
	"golang.org/x/tools/go/ssa"
	"golang.org/x/tools/go/ssa/ssautil"
)

const repoMod = "github.com/uber/tchannel-go"

type Engine struct {
	localHints map[string]map[string]localHint // function key -> local name -> generated hint (locals.go)
	prog          *ssa.Program
	fset          *token.FileSet
	pkgs          []*packages.Package
	files         map[*token.File]*ast.File
	contracts     map[string]*Contract
	contractOrder []string
	contractFiles []string
	preds         map[string]*Pred
	ghosts        map[string]*GhostFunc
	monitors      []*Monitor
	droppedCand   map[string]map[string]bool
	mutableGlobal map[*ssa.Global]bool
	lockClasses   map[string]bool // "pkg.Type.mutexPath" -> sections must be non-blocking
	structInvs    []*StructInv
	writerIssues  []writerIssue
	callersDecls  []*callersDecl
	conformIfaces map[string]bool // interfaces whose in-repo implementations are checked against the interface contracts
	tagSeq        int64
	solverSem     chan struct{} // bounds the number of concurrently running solver processes started from within one function
	owned         map[string]string // "pkg.Type" -> ghost field that must be 1 to touch the object
	views         map[string]map[string]*Contract
	viewList      []*Contract
	initStored    map[*ssa.Global]bool
	initAlloc     map[*ssa.Global]bool
	funcs         map[string]*ssa.Function
	workDir       string
	timeoutMs     int
	retryMs       int // per-obligation cap of the single-obligation second opinions (>= timeoutMs)
	thorough      bool
	mu            sync.Mutex
	repoDir       string
	debug         string
	seed          int
}

func loadEngine(repoDir string, pkgPaths []string) (*Engine, error) {
	cfg := &packages.Config{Mode: packages.LoadAllSyntax, Dir: repoDir, BuildFlags: []string{"-tags=verif"},
		Env: append(os.Environ(), "GOFLAGS=-mod=mod", "GOPROXY=off", "GOSUMDB=off", "GOTOOLCHAIN=local", "GOOS=linux", "GOARCH=amd64")}
	pkgs, err := packages.Load(cfg, pkgPaths...)
	if err != nil {
		return nil, err
	}
	var errs []string
	packages.Visit(pkgs, nil, func(p *packages.Package) {
		if strings.HasPrefix(p.PkgPath, repoMod) {
			for _, e := range p.Errors {
				errs = append(errs, e.Error())
			}
		}
	})
	if len(errs) > 0 {
		return nil, fmt.Errorf("package errors: %s", strings.Join(errs, "; "))
	}
	prog, _ := ssautil.AllPackages(pkgs, ssa.GlobalDebug|ssa.InstantiateGenerics)
	prog.Build()
	e := &Engine{prog: prog, pkgs: pkgs, contracts: map[string]*Contract{}, preds: map[string]*Pred{}, ghosts: map[string]*GhostFunc{},
		droppedCand: map[string]map[string]bool{}, files: map[*token.File]*ast.File{}, mutableGlobal: map[*ssa.Global]bool{},
		funcs: map[string]*ssa.Function{}, repoDir: repoDir, timeoutMs: 10000, solverSem: make(chan struct{}, 16)}
	e.ghosts["sendtries"] = &GhostFunc{Name: "sendtries", Field: true, Ret: "Int"}
	// recvtries(ch): receive attempts made on a channel (a plain receive, or a
	// receive case of a select, chosen or not). Volatile: usable between calls only.
	e.ghosts["recvtries"] = &GhostFunc{Name: "recvtries", Field: true, Ret: "Int", Volatile: true}
	packages.Visit(pkgs, nil, func(p *packages.Package) {
		if e.fset == nil && p.Fset != nil {
			e.fset = p.Fset
		}
		if !strings.HasPrefix(p.PkgPath, repoMod) {
			return
		}
		for _, f := range p.Syntax {
			e.files[p.Fset.File(f.Pos())] = f
		}
	})
	for _, p := range pkgs {
		if len(p.GoFiles) == 0 {
			continue
		}
		dir := filepath.Dir(p.GoFiles[0])
		if err := e.loadContracts(dir, p.Types); err != nil {
			return nil, err
		}
	}
	for fn := range ssautil.AllFunctions(prog) {
		if fn.Pkg != nil && strings.HasPrefix(fn.Pkg.Pkg.Path(), repoMod) || fn.Parent() != nil {
			e.funcs[fn.String()] = fn
		}
	}
	if err := e.finishContracts(); err != nil {
		return nil, err
	}
	if err := e.resolveMonitors(); err != nil {
		return nil, err
	}
	if err := e.resolveStructInvs(); err != nil {
		return nil, err
	}
	e.findMutableGlobals()
	e.inferEffects()
	e.checkSignatures()
	e.checkCallers()
	return e, nil
}

func (e *Engine) fileOf(pos token.Pos) *ast.File {
	tf := e.fset.File(pos)
	return e.files[tf]
}

func (e *Engine) inRepo(fn *ssa.Function) bool {
	for fn.Parent() != nil {
		fn = fn.Parent()
	}
	return fn.Pkg != nil && strings.HasPrefix(fn.Pkg.Pkg.Path(), repoMod)
}

func (e *Engine) isRepoType(t types.Type) bool {
	if n := namedOf(t); n != nil && n.Obj().Pkg() != nil {
		return strings.HasPrefix(n.Obj().Pkg().Path(), repoMod)
	}
	return false
}

func (e *Engine) lookupType(pkgPath, name string) types.Type {
	var found types.Type
	packages.Visit(e.pkgs, nil, func(p *packages.Package) {
		if p.PkgPath == pkgPath && p.Types != nil && found == nil {
			if tn, ok := p.Types.Scope().Lookup(name).(*types.TypeName); ok {
				found = tn.Type()
			}
		}
	})
	return found
}

// implementers: named repo types (T or *T) whose method set satisfies the interface.
func (e *Engine) implementers(it types.Type) []types.Type {
	iface, ok := it.Underlying().(*types.Interface)
	if !ok {
		return nil
	}
	var out []types.Type
	packages.Visit(e.pkgs, nil, func(p *packages.Package) {
		if p.Types == nil || !strings.HasPrefix(p.PkgPath, repoMod) {
			return
		}
		sc := p.Types.Scope()
		for _, n := range sc.Names() {
			tn, ok := sc.Lookup(n).(*types.TypeName)
			if !ok || tn.IsAlias() {
				continue
			}
			if _, isI := tn.Type().Underlying().(*types.Interface); isI {
				continue
			}
			if types.Implements(tn.Type(), iface) {
				out = append(out, tn.Type())
			} else if types.Implements(types.NewPointer(tn.Type()), iface) {
				out = append(out, types.NewPointer(tn.Type()))
			}
		}
	})
	sort.Slice(out, func(i, j int) bool { return types.TypeString(out[i], nil) < types.TypeString(out[j], nil) })
	return out
}

func (e *Engine) pkgByName(name string) *types.Package {
	var found *types.Package
	packages.Visit(e.pkgs, nil, func(p *packages.Package) {
		if p.Types != nil && p.Types.Name() == name && found == nil {
			found = p.Types
		}
	})
	return found
}

// benignIface: interface methods assumed to have no effect on tchannel objects.
func (e *Engine) benignIface(t types.Type, method string) bool {
	n := namedOf(t)
	if n == nil {
		return true // anonymous interfaces (e.g. interface{ Error() string })
	}
	if n.Obj().Pkg() == nil {
		return true // error
	}
	if !strings.HasPrefix(n.Obj().Pkg().Path(), repoMod) {
		return true
	}
	switch n.Obj().Name() {
	case "Logger", "StatsReporter", "Registrar", "tracerProvider", "Tracer":
		return true
	}
	return false
}

// findMutableGlobals marks globals stored to outside package initialisers.
func (e *Engine) findMutableGlobals() {
	var root func(v ssa.Value) *ssa.Global
	root = func(v ssa.Value) *ssa.Global {
		switch t := v.(type) {
		case *ssa.Global:
			return t
		case *ssa.FieldAddr:
			return root(t.X)
		case *ssa.IndexAddr:
			return root(t.X)
		}
		return nil
	}
	e.initStored = map[*ssa.Global]bool{}
	e.initAlloc = map[*ssa.Global]bool{}
	for _, p := range e.prog.AllPackages() {
		if fn := p.Func("init"); fn != nil {
			if _, ok := e.funcs[fn.String()]; !ok {
				for _, b := range fn.Blocks {
					for _, ins := range b.Instrs {
						if t, ok := ins.(*ssa.Store); ok {
							if g, ok := t.Addr.(*ssa.Global); ok {
								e.initStored[g] = true
							}
						}
					}
				}
			}
		}
	}
	for _, fn := range e.funcs {
		if fn.Name() == "init" || strings.HasPrefix(fn.Name(), "init#") {
			for _, b := range fn.Blocks {
				for _, ins := range b.Instrs {
					if t, ok := ins.(*ssa.Store); ok {
						if g, ok := t.Addr.(*ssa.Global); ok {
							e.initStored[g] = true
							if _, isAlloc := t.Val.(*ssa.Alloc); isAlloc {
								e.initAlloc[g] = true
							}
						}
					}
				}
			}
			continue
		}
		for _, b := range fn.Blocks {
			for _, ins := range b.Instrs {
				switch t := ins.(type) {
				case *ssa.Store:
					if g := root(t.Addr); g != nil {
						e.mutableGlobal[g] = true
					}
				case ssa.CallInstruction:
					// address passed to a call: may be written
					for _, a := range t.Common().Args {
						if g := root(a); g != nil {
							if _, isSync := isSyncType(g.Type()); !isSync {
								e.mutableGlobal[g] = true
							}
						}
					}
				}
			}
		}
	}
}

func isSyncType(t types.Type) (string, bool) {
	if n := namedOf(t); n != nil && n.Obj().Pkg() != nil {
		p := n.Obj().Pkg().Path()
		if p == "sync" || p == "sync/atomic" || p == "go.uber.org/atomic" {
			return n.Obj().Name(), true
		}
	}
	return "", false
}

func (e *Engine) immutableHeap(name string) bool { return false }

// tagID: deterministic id for a type / function key.
func tagID(k string) int {
	h := fnv.New32a()
	h.Write([]byte(k))
	return int(h.Sum32()&0x3fffffff) + 1
}

// ---------- running one function ----------

type FnResult struct {
	Fn          string
	Short       string
	Obls        []*Obligation
	Err         string // engine error (outside subset, bad contract, ...)
	Assumptions []string
	Inlined     []string
	UsedCons    []string
	Props       []string
	TimeS       float64
	Script      string
}

func (e *Engine) newFnCtx(fn *ssa.Function, discovery bool, prev *FnCtx) *FnCtx {
	fc := &FnCtx{eng: e, fn: fn, con: e.contracts[fn.String()], sc: newScript(), sorts: map[string]string{}, oblNames: map[string]int{},
		discovery: discovery, loopWrites: map[*ssa.BasicBlock]map[string]bool{}, loopCellW: map[*ssa.BasicBlock]map[int]bool{}, loopHavocAll: map[*ssa.BasicBlock]bool{},
		cellOf: map[string]int{}, cellSeq: map[string]int{}, cellType: map[int]types.Type{}, assumptions: map[string]bool{}, inlined: map[string]bool{}, usedContracts: map[string]bool{},
		tagTypes: map[int]types.Type{}, poolVals: map[string]bool{}, structAssumed: map[string]bool{}, freshObj: map[string]bool{}, immut: map[string]bool{}, writtenNames: map[string]bool{}, nonNil: map[string]bool{}}
	if fc.con != nil {
		fc.props = fc.con.Props
		fc.rebindLocals()
	}
	if prev != nil {
		fc.loopWrites, fc.loopCellW, fc.loopHavocAll = prev.loopWrites, prev.loopCellW, prev.loopHavocAll
		fc.loopKeep, fc.loopKeepSet = prev.loopKeep, prev.loopKeepSet
	}
	return fc
}

// conformJob: check that the contract of an in-repo implementation of an
// interface method refines the contract written on the interface method.
type writerIssue struct {
	props []string
	msg   string
}

type conformJob struct {
	iface *Contract // the contract on the interface method
	impl  *Contract // the implementation's own contract
	fn    *ssa.Function
	// a method promoted from an embedded struct: the implementing (outer) type and
	// the field path from it to the embedded struct that declares the method
	outer     types.Type
	outerPath []int
}

func (e *Engine) runFn(fn *ssa.Function) (res *FnResult) { return e.runJob(fn, nil) }

func (e *Engine) runJob(fn *ssa.Function, cj *conformJob) (res *FnResult) {
	t0 := time.Now()
	res = &FnResult{Fn: fn.String(), Short: shortFnName(fn)}
	if c := e.contracts[fn.String()]; c != nil {
		res.Props = c.Props
	}
	if cj != nil {
		res.Fn = "conform:" + fn.String() + "<:" + cj.iface.Key
		res.Short = shortFnName(fn) + "<:" + cj.iface.Key[strings.LastIndex(cj.iface.Key, "/")+1:]
		if cj.outer != nil {
			res.Short = shortFnName(fn) + "[in " + typeName(cj.outer) + "]<:" + cj.iface.Key[strings.LastIndex(cj.iface.Key, "/")+1:]
			res.Fn += "[" + typeName(cj.outer) + "]"
		}
	}
	var fc *FnCtx
	run := func(discovery bool, prev *FnCtx) (fc *FnCtx, err string) {
		fc = e.newFnCtx(fn, discovery, prev)
		if cj != nil {
			fc.con, fc.conformImpl, fc.conformIface = cj.iface, cj.impl, true
			fc.conformOuter, fc.conformOuterPath = cj.outer, cj.outerPath
			fc.prefixOverride = res.Short
		}
		defer func() {
			if r := recover(); r != nil {
				switch x := r.(type) {
				case unsupported:
					err = "outside subset: " + x.msg
				case specErr:
					err = "contract error: " + x.msg
				default:
					panic(r)
				}
			}
		}()
		fc.stack = []*ssa.Function{fn}
		fc.verify()
		return fc, ""
	}
	needDiscovery := false
	var walk func(f *ssa.Function, depth int)
	seen := map[*ssa.Function]bool{}
	walk = func(f *ssa.Function, depth int) {
		if seen[f] || depth > maxInlineDepth {
			return
		}
		seen[f] = true
		if len(loopHeaders(f)) > 0 {
			needDiscovery = true
		}
		for _, b := range f.Blocks {
			for _, ins := range b.Instrs {
				if c, ok := ins.(ssa.CallInstruction); ok {
					if cal := c.Common().StaticCallee(); cal != nil && len(cal.Blocks) > 0 && e.inRepo(cal) {
						walk(cal, depth+1)
					}
				}
				if mc, ok := ins.(*ssa.MakeClosure); ok {
					walk(mc.Fn.(*ssa.Function), depth+1)
				}
			}
		}
	}
	walk(fn, 0)
	var prev *FnCtx
	if needDiscovery {
		p, err := run(true, nil)
		if err != "" {
			res.Err = err
			res.TimeS = time.Since(t0).Seconds()
			return
		}
		prev = p
	}
	for iter := 0; iter < 4; iter++ {
		var err string
		fc, err = run(false, prev)
		if err != "" {
			res.Err = err
			fc = nil
			break
		}
		e.solve(fc)
		// houdini: drop failed candidates and retry
		dropped := false
		for _, o := range fc.obls {
			if o.Candidate && o.Status != "unsat" {
				e.mu.Lock()
				if e.droppedCand[fn.String()] == nil {
					e.droppedCand[fn.String()] = map[string]bool{}
				}
				e.droppedCand[fn.String()][o.CandKey] = true
				e.mu.Unlock()
				dropped = true
			}
		}
		if !dropped {
			break
		}
	}
	if fc != nil {
		for _, o := range fc.obls {
			if !o.Candidate {
				res.Obls = append(res.Obls, o)
			}
		}
		for a := range fc.assumptions {
			res.Assumptions = append(res.Assumptions, a)
		}
		sort.Strings(res.Assumptions)
		for a := range fc.inlined {
			res.Inlined = append(res.Inlined, a)
		}
		sort.Strings(res.Inlined)
		for a := range fc.usedContracts {
			res.UsedCons = append(res.UsedCons, a)
		}
		sort.Strings(res.UsedCons)
	}
	res.TimeS = time.Since(t0).Seconds()
	return
}

// ---------- solver ----------

type solverSpec struct {
	name string
	args func(file string, timeoutMs int) []string
	pre  func(timeoutMs int) string
}

var solverSeed = 0

var solvers = []solverSpec{
	{"z3-5.1.0", func(f string, ms int) []string { return []string{"z3-new", "-smt2", f} }, func(ms int) string {
		return fmt.Sprintf("(set-option :timeout %d)\n(set-option :smt.random_seed %d)\n", ms, solverSeed)
	}},
	{"cvc5-1.0", func(f string, ms int) []string {
		return []string{"cvc5", "--incremental", "--tlimit-per=" + strconv.Itoa(ms), "--strings-exp", f}
	}, func(ms int) string { return "" }},
	{"z3-4.8.12", func(f string, ms int) []string { return []string{"/usr/bin/z3", "-smt2", f} }, func(ms int) string {
		return fmt.Sprintf("(set-option :timeout %d)\n(set-option :smt.random_seed 0)\n", ms)
	}},
}

func (e *Engine) runSolver(sv solverSpec, script string, tag string, wall time.Duration) (string, error) {
	return e.runSolverT(sv, script, tag, wall, e.timeoutMs)
}

func (e *Engine) runSolverT(sv solverSpec, script string, tag string, wall time.Duration, ms int) (string, error) {
	return e.runSolverCtx(context.Background(), sv, script, tag, wall, ms)
}

func (e *Engine) runSolverCtx(parent context.Context, sv solverSpec, script string, tag string, wall time.Duration, ms int) (string, error) {
	file := filepath.Join(e.workDir, tag+".smt2")
	body := sv.pre(ms) + script
	if sv.name == "cvc5-1.0" {
		// cvc5 wants produce-models before set-logic: already the case in prelude
		body = script
	}
	if err := os.WriteFile(file, []byte(body), 0o644); err != nil {
		return "", err
	}
	ctx, cancel := context.WithTimeout(parent, wall)
	defer cancel()
	args := sv.args(file, ms)
	cmd := exec.CommandContext(ctx, args[0], args[1:]...)
	var out bytes.Buffer
	cmd.Stdout = &out
	cmd.Stderr = &out
	err := cmd.Run()
	_ = err
	return out.String(), nil
}

// parseResults maps "@@ k" markers to the status line that follows.
func parseResults(out string, n int) []string {
	res := make([]string, n)
	lines := strings.Split(out, "\n")
	cur := -1
	for _, l := range lines {
		l = strings.TrimSpace(strings.Trim(strings.TrimSpace(l), "\""))
		if strings.HasPrefix(l, "@@ ") {
			k, err := strconv.Atoi(strings.TrimSpace(l[3:]))
			if err == nil {
				cur = k
			}
			continue
		}
		if cur >= 0 && cur < n && res[cur] == "" {
			switch l {
			case "sat", "unsat", "unknown", "timeout":
				res[cur] = l
				cur = -1
			default:
				if strings.HasPrefix(l, "(error") {
					res[cur] = "error: " + l
					cur = -1
				}
			}
		}
	}
	return res
}

func (e *Engine) solve(fc *FnCtx) {
	if len(fc.obls) == 0 {
		return
	}
	tag := sanitize(shortFnName(fc.fn))
	if len(tag) > 100 {
		tag = tag[:100] + fmt.Sprint(tagID(tag))
	}
	// unique per job: a function's own job and its conformance jobs run concurrently
	tag = fmt.Sprintf("%s_j%d", tag, atomic.AddInt64(&e.tagSeq, 1))
	script, order := fc.sc.render(e.timeoutMs, nil)
	t0 := time.Now()
	wall := time.Duration(len(order)+5) * time.Duration(e.timeoutMs) * time.Millisecond
	if wall > 10*time.Minute {
		wall = 10 * time.Minute
	}
	// large functions: contiguous chunks of the obligation list are checked by
	// separate solver processes (each sees every earlier obligation as an assumption)
	nchunk := len(order) / 12
	if nchunk > 8 {
		nchunk = 8
	}
	if nchunk < 1 {
		nchunk = 1
	}
	rs := make([]string, len(order))
	var lastOut string
	if nchunk == 1 {
		out, _ := e.runSolver(solvers[0], script, tag, wall)
		copy(rs, parseResults(out, len(order)))
		lastOut = out
	} else {
		var wg sync.WaitGroup
		var mu sync.Mutex
		per := (len(order) + nchunk - 1) / nchunk
		for c := 0; c < nchunk; c++ {
			lo, hi := c*per, (c+1)*per
			if hi > len(order) {
				hi = len(order)
			}
			if lo >= hi {
				continue
			}
			wg.Add(1)
			go func(c, lo, hi int) {
				defer wg.Done()
				e.solverSem <- struct{}{}
				defer func() { <-e.solverSem }()
				only := map[*Obligation]bool{}
				for _, o := range order[lo:hi] {
					only[o] = true
				}
				sc, ord := fc.sc.render(e.timeoutMs, only)
				out, _ := e.runSolver(solvers[0], sc, fmt.Sprintf("%s_c%d", tag, c), wall)
				r := parseResults(out, len(ord))
				mu.Lock()
				copy(rs[lo:hi], r)
				lastOut = out
				mu.Unlock()
			}(c, lo, hi)
		}
		wg.Wait()
	}
	el := time.Since(t0).Seconds()
	for i, o := range order {
		o.Backend = solvers[0].name
		o.TimeS = el / float64(len(order))
		o.Status = rs[i]
		if o.Status == "" {
			o.Status = "unknown"
			o.Output = tail(lastOut, 400)
		}
		if o.Cover {
			// cover obligations pass when satisfiable
			switch o.Status {
			case "sat":
				o.Status = "unsat"
			case "unsat":
				o.Status = "sat"
				o.Output = "precondition (requires + type invariants) is unsatisfiable: vacuous contract"
			}
		}
	}
	// thorough tier: a second back end re-checks the whole script; a `sat` from it vetoes an `unsat`
	if e.thorough {
		out2, _ := e.runSolver(solvers[2], script, tag+"_x", wall)
		rs2 := parseResults(out2, len(order))
		for i, o := range order {
			r2 := rs2[i]
			if o.Cover {
				if r2 == "sat" {
					r2 = "unsat"
				} else if r2 == "unsat" {
					r2 = "sat"
				}
			}
			if o.Status == "unsat" && r2 == "sat" {
				o.Status = "unknown"
				o.Output = "solver disagreement: " + solvers[0].name + " unsat, " + solvers[2].name + " sat"
			} else if o.Status == "unsat" && r2 == "unsat" {
				o.Backend += "+" + solvers[2].name
			}
		}
	}
	// second opinions for anything not proved, one obligation at a time (in parallel)
	var rwg sync.WaitGroup
	for ri, o := range order {
		if o.Status == "unsat" {
			continue
		}
		rwg.Add(1)
		go func(ri int, o *Obligation) {
			defer rwg.Done()
			e.solverSem <- struct{}{}
			defer func() { <-e.solverSem }()
			e.secondOpinion(fc, o, tag, ri)
		}(ri, o)
	}
	rwg.Wait()
}

func (e *Engine) secondOpinion(fc *FnCtx, o *Obligation, tag string, ri int) {
	{
		first := o.Status
		single := fc.sc.renderSingle(o, false)
		var sat bool
		// the back ends run concurrently; their answers are then considered in the fixed order
		s2 := single
		if first == "sat" {
			s2 = fc.sc.renderSingle(o, true)
		}
		outs := make([]string, len(solvers))
		durs := make([]float64, len(solvers))
		var swg sync.WaitGroup
		// as soon as one back end gives a decisive answer the others are stopped
		rctx, rcancel := context.WithCancel(context.Background())
		defer rcancel()
		decisive := func(out string) bool {
			r := parseResults(out, 1)[0]
			if o.Cover {
				return r == "sat" || r == "unsat"
			}
			return r == "sat" || (r == "unsat" && first != "sat")
		}
		for si, sv := range solvers {
			swg.Add(1)
			go func(si int, sv solverSpec) {
				defer swg.Done()
				t1 := time.Now()
				tg := fmt.Sprintf("%s_r%d_%d", tag, ri, si)
				if e.debug != "" && strings.Contains(o.Name, e.debug) {
					tg = fmt.Sprintf("%s_dbg%d_%s", tag, tagID(o.Name), sv.name)
					fmt.Printf("debug: %s -> %s/%s.smt2\n", o.Name, e.workDir, tg)
				}
				rms := e.retryMs
				if rms < e.timeoutMs {
					rms = e.timeoutMs
				}
				if o.Candidate {
					// automatic invariant candidates are dropped when they do not prove quickly
					rms = e.timeoutMs / 2
				}
				out, _ := e.runSolverCtx(rctx, sv, s2, tg, time.Duration(rms+5000)*time.Millisecond, rms)
				if e.debug != "" && strings.Contains(o.Name, e.debug) {
					os.WriteFile(e.workDir+"/"+tg+".out", []byte(out), 0o644)
				}
				outs[si], durs[si] = out, time.Since(t1).Seconds()
				if decisive(out) {
					rcancel()
				}
			}(si, sv)
		}
		swg.Wait()
		for si, sv := range solvers {
			out := outs[si]
			t1 := time.Now().Add(-time.Duration(durs[si] * float64(time.Second)))
			r := parseResults(out, 1)[0]
			if o.Cover {
				if r == "sat" {
					r = "unsat"
				} else if r == "unsat" {
					r = "sat"
				}
			}
			if r == "unsat" && !(first == "sat") {
				o.Status, o.Backend, o.TimeS = "unsat", sv.name, time.Since(t1).Seconds()
				break
			}
			if r == "sat" {
				sat = true
				o.Status, o.Backend = "sat", sv.name
				o.Model = extractModel(out, fc.watch)
				o.Output = tail(out, 3000)
				if !o.Cover && safetyKinds[o.Kind] && !strings.Contains(o.Name, ">") {
					e.makeReplay(fc, o, single, sv, tag)
				} else if !o.Cover {
					o.ReplayWhy = "no generic recipe for this kind of obligation (postcondition / inlined callee); the model of the parameters is in the replay file"
				}
				break
			}
			if r != "" && r != "unsat" {
				o.Output += sv.name + ": " + r + "\n"
			}
			if first == "sat" && r == "unsat" {
				// disagreement between solvers: keep sat, note it
				o.Output += sv.name + " says unsat while " + solvers[0].name + " said sat\n"
			}
		}
		_ = sat
	}
}

func tail(s string, n int) string {
	if len(s) > n {
		return s[len(s)-n:]
	}
	return s
}

// extractModel pulls (define-fun name () Sort value) lines for watched names.
func extractModel(out string, watch []string) string {
	want := map[string]bool{}
	for _, w := range watch {
		want[w] = true
	}
	var b strings.Builder
	lines := strings.Split(out, "\n")
	for i := 0; i < len(lines); i++ {
		l := strings.TrimSpace(lines[i])
		if !strings.HasPrefix(l, "(define-fun ") {
			continue
		}
		f := strings.Fields(l)
		if len(f) < 2 {
			continue
		}
		name := f[1]
		if !want[name] {
			continue
		}
		val := l
		if !balanced(l) && i+1 < len(lines) {
			val = l + " " + strings.TrimSpace(lines[i+1])
		}
		b.WriteString(val)
		b.WriteByte('\n')
	}
	return b.String()
}

func balanced(s string) bool {
	d := 0
	for _, c := range s {
		if c == '(' {
			d++
		} else if c == ')' {
			d--
		}
	}
	return d == 0
}

// makeReplay asks the solver for the values the replay needs and generates the test.
func (e *Engine) makeReplay(fc *FnCtx, o *Obligation, single string, sv solverSpec, tag string) {
	terms := fc.replayTerms()
	if len(terms) == 0 {
		o.ReplayWhy = "function has no parameters"
	}
	q := strings.Replace(single, "(check-sat)\n", "(check-sat)\n(echo \"@@values\")\n(get-value ("+strings.Join(terms, " ")+"))\n", 1)
	if len(terms) == 0 {
		q = single
	}
	out, _ := e.runSolver(sv, q, tag+"_rv", time.Duration(e.timeoutMs+5000)*time.Millisecond)
	vals := parseGetValue(out, len(terms))
	src, why := fc.buildReplay(o, vals)
	o.ReplayGo, o.ReplayWhy = src, why
	if fc.fn.Pkg != nil {
		o.ReplayPkg = strings.TrimPrefix(strings.TrimPrefix(fc.fn.Pkg.Pkg.Path(), repoMod), "/")
	}
}

// resolveStructInvs parses the clauses and checks mechanically that the
// first-level fields they mention are stored to only inside the establishing
// functions (and their closures).
func (e *Engine) resolveStructInvs() error {
	for _, si := range e.structInvs {
		tn, ok := si.Pkg.Scope().Lookup(si.TypeName).(*types.TypeName)
		if !ok {
			return fmt.Errorf("structinv: unknown type %s", si.TypeName)
		}
		si.rootType = tn.Type()
		sp, err := parseSpec(si.Clause.Text)
		if err != nil {
			return fmt.Errorf("structinv %s: %v", si.TypeName, err)
		}
		si.Clause.Expr = sp
		// field paths mentioned on self (through embedded and struct-valued fields)
		si.fields = map[string]bool{}
		si.stable = map[string]bool{}
		re := regexp.MustCompile(`\b` + regexp.QuoteMeta(si.Self) + `((?:\.[A-Za-z_][A-Za-z0-9_]*)+)`)
		for _, m := range re.FindAllStringSubmatch(si.Clause.Text, -1) {
			var cur types.Type = si.rootType
			var parts []string
			for _, sel := range strings.Split(strings.TrimPrefix(m[1], "."), ".") {
				if structOf(cur) == nil || isPointer(cur) {
					break
				}
				obj, idx, _ := types.LookupFieldOrMethod(cur, true, si.Pkg, sel)
				if _, isVar := obj.(*types.Var); !isVar {
					break
				}
				for _, i := range idx {
					f := structOf(cur).Field(i)
					parts = append(parts, f.Name())
					cur = f.Type()
				}
			}
			if len(parts) > 0 {
				si.fields[strings.Join(parts, ".")] = true
				si.stable[strings.Join(parts, ".")] = true
				// struct-valued prefixes of the path (embedded or by-value struct fields)
				var t2 types.Type = si.rootType
				for k := 0; k+1 < len(parts); k++ {
					st2 := structOf(t2)
					if st2 == nil {
						break
					}
					var ft types.Type
					for fi := 0; fi < st2.NumFields(); fi++ {
						if st2.Field(fi).Name() == parts[k] {
							ft = st2.Field(fi).Type()
						}
					}
					if ft == nil || isPointer(ft) || structOf(ft) == nil {
						break
					}
					if si.embeddedRoots == nil {
						si.embeddedRoots = map[string]string{}
					}
					si.embeddedRoots[types.TypeString(ft, nil)] = strings.Join(parts[:k+1], ".")
					t2 = ft
				}
			}
		}
		allowed := map[string]bool{}
		for _, f := range si.Established {
			allowed[f] = true
		}
		if si.WritersOnly {
			for f := range si.stable {
				si.stable[f] = false // the listed writers do change it
			}
			goto writerScan
		}
		// the type must not occur as a by-value field of another struct: such
		// instances are never "returned by a constructor", so nothing would prove
		// the invariant for them (declare it on the containing type instead)
		for _, n := range si.Pkg.Scope().Names() {
			tn, ok := si.Pkg.Scope().Lookup(n).(*types.TypeName)
			if !ok {
				continue
			}
			st, ok := tn.Type().Underlying().(*types.Struct)
			if !ok {
				continue
			}
			for i := 0; i < st.NumFields(); i++ {
				if types.Identical(st.Field(i).Type(), si.rootType) {
					return fmt.Errorf("structinv %s: the type is a by-value field of %s; state the invariant on %s", si.TypeName, tn.Name(), tn.Name())
				}
			}
		}
		// every establishing function is verified (it must be under a non-trusted contract)
		for _, f := range si.Established {
			found := false
			for k, con := range e.contracts {
				fn := e.funcs[k]
				if fn != nil && fn.Name() == f && fn.Pkg != nil && fn.Pkg.Pkg == si.Pkg && !con.Trusted {
					found = true
				}
			}
			if !found {
				return fmt.Errorf("structinv %s: establishing function %s is not under a verified contract, so the invariant would never be proved", si.TypeName, f)
			}
		}
	writerScan:
		helper := map[string]bool{}
		for _, f := range si.Helpers {
			allowed[f] = true
			helper[f] = true
		}
		// helpers are referenced only from establishing functions and other helpers
		for _, fn := range e.funcs {
			top := fn
			for top.Parent() != nil {
				top = top.Parent()
			}
			if top.Pkg == nil || top.Pkg.Pkg != si.Pkg || allowed[top.Name()] {
				continue
			}
			for _, b := range fn.Blocks {
				for _, ins := range b.Instrs {
					for _, op := range ins.Operands(nil) {
						if op == nil || *op == nil {
							continue
						}
						if callee, ok := (*op).(*ssa.Function); ok && callee.Pkg == top.Pkg && helper[callee.Name()] {
							return fmt.Errorf("structinv %s: helper %s is used in %s, which is not an establishing function", si.TypeName, callee.Name(), fn)
						}
					}
				}
			}
		}
		for _, fn := range e.funcs {
			top := fn
			for top.Parent() != nil {
				top = top.Parent()
			}
			if top.Pkg == nil || top.Pkg.Pkg != si.Pkg || allowed[top.Name()] {
				continue
			}
			for _, b := range fn.Blocks {
				for _, ins := range b.Instrs {
					st, ok := ins.(*ssa.Store)
					if !ok {
						continue
					}
					if pt, ok := st.Addr.Type().Underlying().(*types.Pointer); ok && types.Identical(pt.Elem(), si.rootType) {
						if _, isAlloc := st.Addr.(*ssa.Alloc); !isAlloc {
							return fmt.Errorf("structinv %s: whole-struct store in %s, which is not listed as establishing it", si.TypeName, fn)
						}
					}
					// walk the chain of field/index addresses down to the one rooted at a *T
					// (or at a pointer to a struct that T embeds by value on the path of an
					// invariant field: a method of the embedded struct writes the same memory)
					var cur ssa.Value = st.Addr
					var names []string
					rooted := false
					viaEmbedded := ""
					for cur != nil && !rooted {
						switch a := cur.(type) {
						case *ssa.FieldAddr:
							pt := a.X.Type().Underlying().(*types.Pointer)
							names = append([]string{structOf(pt.Elem()).Field(a.Field).Name()}, names...)
							if types.Identical(pt.Elem(), si.rootType) {
								rooted = true
							} else if pre, ok := si.embeddedRoots[types.TypeString(pt.Elem(), nil)]; ok {
								_, inner := a.X.(*ssa.FieldAddr)
								_, local := a.X.(*ssa.Alloc) // a local copy of the struct, not an object's field
								if !inner && !local {
									names = append(strings.Split(pre, "."), names...)
									rooted = true
									viaEmbedded = types.TypeString(pt.Elem(), nil)
								}
							}
							cur = a.X
						case *ssa.IndexAddr:
							cur = a.X
						default:
							cur = nil
						}
					}
					if !rooted {
						continue
					}
					if hit := si.touches(strings.Join(names, ".")); hit != "" {
						// a writer under a verified contract re-establishes the invariant at the store (structInvStore);
						// the field's value is then no longer constant, only the invariant is
						if con := e.contracts[fn.String()]; con != nil && !con.Trusted && !si.WritersOnly && viaEmbedded == "" {
							si.stable[hit] = false
							continue
						}
						if viaEmbedded != "" && !si.WritersOnly {
							return fmt.Errorf("structinv %s: field %s is written in %s through a pointer to the embedded %s (such a store cannot re-establish the invariant of the containing object)", si.TypeName, hit, fn, viaEmbedded)
						}
						if si.WritersOnly {
							// reported with the checks of the properties the listed writers serve
							var props []string
							for k, con := range e.contracts {
								if f2 := e.funcs[k]; f2 != nil && f2.Pkg != nil && f2.Pkg.Pkg == si.Pkg {
									for _, w := range si.Established {
										if f2.Name() == w {
											props = append(props, con.Props...)
										}
									}
								}
							}
							e.writerIssues = append(e.writerIssues, writerIssue{props: props, msg: fmt.Sprintf("writers %s.%s: the field is stored to in %s, which is not one of the declared writers (%s)", si.TypeName, hit, fn, strings.Join(si.Established, ", "))})
							continue
						}
						return fmt.Errorf("structinv %s: field %s is written in %s, which is neither listed as establishing it nor under a verified contract", si.TypeName, hit, fn)
					}
				}
			}
		}
	}
	return nil
}


// callersDecl: `callers Iface.method : f1, f2` -- only the listed functions (of
// the declaring package) may invoke the interface method, or call a method of
// that name on a type of the package that implements the interface.
type callersDecl struct {
	Pkg     *types.Package
	Iface   string
	Method  string
	Allowed []string
	Props   []string
}

func (e *Engine) checkCallers() {
	for _, cd := range e.callersDecls {
		obj, _ := cd.Pkg.Scope().Lookup(cd.Iface).(*types.TypeName)
		if obj == nil {
			e.writerIssues = append(e.writerIssues, writerIssue{msg: fmt.Sprintf("callers %s.%s: no such interface", cd.Iface, cd.Method)})
			continue
		}
		iface, _ := obj.Type().Underlying().(*types.Interface)
		if iface == nil {
			e.writerIssues = append(e.writerIssues, writerIssue{msg: fmt.Sprintf("callers %s.%s: not an interface", cd.Iface, cd.Method)})
			continue
		}
		allowed := map[string]bool{}
		props := append([]string{}, cd.Props...)
		for _, a := range cd.Allowed {
			allowed[a] = true
		}
		for k, con := range e.contracts {
			if f2 := e.funcs[k]; f2 != nil && f2.Pkg != nil && f2.Pkg.Pkg == cd.Pkg && allowed[f2.Name()] {
				props = append(props, con.Props...)
			}
		}
		names := make([]string, 0, len(e.funcs))
		for k := range e.funcs {
			names = append(names, k)
		}
		sort.Strings(names)
		for _, k := range names {
			fn := e.funcs[k]
			if fn.Pkg == nil || fn.Pkg.Pkg != cd.Pkg || len(fn.Blocks) == 0 {
				continue
			}
			root := fn
			for root.Parent() != nil {
				root = root.Parent()
			}
			if allowed[root.Name()] {
				continue
			}
			// the implementations' own methods of that name may call each other (wrappers)
			if root.Signature.Recv() != nil && root.Name() == cd.Method && types.Implements(root.Signature.Recv().Type(), iface) {
				continue
			}
			for _, b := range fn.Blocks {
				for _, ins := range b.Instrs {
					ci, ok := ins.(ssa.CallInstruction)
					if !ok {
						continue
					}
					com := ci.Common()
					hit := false
					if com.IsInvoke() {
						hit = com.Method.Name() == cd.Method && types.Identical(com.Value.Type().Underlying(), iface)
					} else if sc := com.StaticCallee(); sc != nil && sc.Name() == cd.Method && sc.Signature.Recv() != nil {
						hit = types.Implements(sc.Signature.Recv().Type(), iface)
					}
					if hit {
						e.writerIssues = append(e.writerIssues, writerIssue{props: props, msg: fmt.Sprintf("callers %s.%s: invoked in %s, which is not one of the declared callers (%s)", cd.Iface, cd.Method, fn, strings.Join(cd.Allowed, ", "))})
					}
				}
			}
		}
	}
}

// checkSignatures marks contracts whose header no longer matches the function
// it names (parameter count or names differ): such a contract would bind its
// clauses to the wrong arguments.
func (e *Engine) checkSignatures() {
	all := []*Contract{}
	for _, k := range e.contractOrder {
		all = append(all, e.contracts[k])
	}
	all = append(all, e.viewList...)
	for _, c := range all {
		fn := e.funcs[c.Key]
		if fn == nil || c.Decl == nil || c.IsIface || fn.Parent() != nil || !e.inRepo(fn) {
			continue
		}
		var names []string
		for _, f := range c.Decl.Type.Params.List {
			if len(f.Names) == 0 {
				names = append(names, "_")
			}
			for _, n := range f.Names {
				names = append(names, n.Name)
			}
		}
		params := fn.Params
		if fn.Signature.Recv() != nil && len(params) > 0 {
			params = params[1:]
		}
		if len(names) != len(params) {
			c.Stale = fmt.Sprintf("the contract header has %d parameters, the function has %d", len(names), len(params))
			continue
		}
		if rl := c.Decl.Type.Results; rl != nil {
			n := 0
			for _, f := range rl.List {
				if len(f.Names) == 0 {
					n++
				}
				n += len(f.Names)
			}
			if n != fn.Signature.Results().Len() {
				c.Stale = fmt.Sprintf("the contract header has %d results, the function has %d", n, fn.Signature.Results().Len())
				continue
			}
		} else if fn.Signature.Results().Len() != 0 && (len(c.Ensures) > 0 || len(c.Requires) > 0) {
			// (headers of safety-only contracts may omit the results)
		}
		// (parameter NAMES are not compared: clauses use the header's names, which are
		// bound by position, so renaming a parameter in the code is harmless)
		_ = params
	}
}


// conformJobs: one job per (interface method under contract, in-repo
// implementation whose method is under a verified contract).
func (e *Engine) conformJobs(want map[string]bool, all bool) (jobs []*conformJob, uncovered []string) {
	for _, k := range e.contractOrder {
		ic := e.contracts[k]
		if !ic.IsIface || ic.Decl == nil || ic.Decl.Recv == nil || strings.Contains(k, ":") {
			continue
		}
		i := strings.LastIndex(k, ".")
		tkey, mname := k[:i], k[i+1:]
		j := strings.LastIndex(tkey, ".")
		if j < 0 || !strings.HasPrefix(tkey, repoMod) {
			continue
		}
		if !all && !e.conformIfaces[tkey] {
			continue
		}
		var it types.Type
		packages.Visit(e.pkgs, nil, func(p *packages.Package) {
			if p.Types != nil && p.PkgPath == tkey[:j] {
				if tn, ok := p.Types.Scope().Lookup(tkey[j+1:]).(*types.TypeName); ok {
					it = tn.Type()
				}
			}
		})
		if it == nil {
			continue
		}
		for _, t := range e.implementers(it) {
			sel := e.prog.MethodSets.MethodSet(t).Lookup(nil, mname)
			if sel == nil {
				if n := namedOf(t); n != nil && n.Obj().Pkg() != nil {
					sel = e.prog.MethodSets.MethodSet(t).Lookup(n.Obj().Pkg(), mname)
				}
			}
			if sel == nil {
				continue
			}
			fn := e.prog.MethodValue(sel)
			if fn == nil || fn.Synthetic != "" && len(fn.Blocks) == 0 {
				continue
			}
			// wrappers for promoted / value-receiver methods: use the declared method
			if fn.Synthetic != "" {
				if obj, ok := sel.Obj().(*types.Func); ok {
					if df := e.prog.FuncValue(obj); df != nil {
						fn = df
					}
				}
			}
			var outer types.Type
			var outerPath []int
			if idx := sel.Index(); len(idx) > 1 {
				// promoted through embedded structs: only by-value embeddings are modelled as interior pointers
				ot := t
				if pt, ok := ot.Underlying().(*types.Pointer); ok {
					ot = pt.Elem()
				}
				cur, okPath := ot, true
				for _, i := range idx[:len(idx)-1] {
					st := structOf(cur)
					if st == nil || isPointer(cur) && cur != ot {
						okPath = false
						break
					}
					f := st.Field(i)
					if isPointer(f.Type()) {
						okPath = false
						break
					}
					if _, isI := f.Type().Underlying().(*types.Interface); isI {
						okPath = false
						break
					}
					cur = f.Type()
				}
				if okPath && fn.Signature.Recv() != nil && isPointer(fn.Signature.Recv().Type()) {
					outer, outerPath = ot, idx[:len(idx)-1]
				}
			}
			impl := e.contracts[fn.String()]
			if impl != nil && (impl.Trusted || impl.IsIface) {
				if e.inRepo(fn) {
					uncovered = append(uncovered, shortFnName(fn)+" (implements "+k[strings.LastIndex(k, "/")+1:]+"; its own contract is trusted)")
				}
				continue
			}
			if impl == nil {
				// no contract of its own: the method BODY is verified against the interface contract
				if !e.inRepo(fn) || len(fn.Blocks) == 0 || strings.HasSuffix(fn.Pkg.Pkg.Path(), "testutils") || strings.Contains(fn.Name(), "ForTest") || strings.Contains(shortFnName(fn), "ForTest") {
					continue
				}
				if len(want) == 0 {
					jobs = append(jobs, &conformJob{iface: ic, impl: nil, fn: fn, outer: outer, outerPath: outerPath})
				}
				continue
			}
			selected := len(want) == 0
			for _, p := range impl.Props {
				if want[p] {
					selected = true
				}
			}
			if selected {
				jobs = append(jobs, &conformJob{iface: ic, impl: impl, fn: fn, outer: outer, outerPath: outerPath})
			}
		}
	}
	return
}


// ifaceTypeOf: the interface type an `iface` contract is written on.
func (e *Engine) ifaceTypeOf(c *Contract) types.Type {
	k := c.Key
	i := strings.LastIndex(k, ".")
	if i < 0 {
		return nil
	}
	tkey := k[:i]
	j := strings.LastIndex(tkey, ".")
	if j < 0 {
		return nil
	}
	var it types.Type
	packages.Visit(e.pkgs, nil, func(p *packages.Package) {
		if p.Types != nil && p.PkgPath == tkey[:j] {
			if tn, ok := p.Types.Scope().Lookup(tkey[j+1:]).(*types.TypeName); ok {
				it = tn.Type()
			}
		}
	})
	return it
}
