package main

import (
	"fmt"
	"go/types"
	"strings"

	"golang.org/x/tools/go/ssa"
)

const maxInlineDepth = 4

func shortFn(fn *ssa.Function) string {
	s := fn.String()
	s = strings.ReplaceAll(s, "github.com/uber/tchannel-go/", "")
	s = strings.ReplaceAll(s, "github.com/uber/tchannel-go.", "tchannel.")
	s = strings.ReplaceAll(s, "github.com/uber/tchannel-go", "tchannel")
	return s
}

func (fc *FnCtx) execCall(fr *Frame, st *State, reach string, call ssa.CallInstruction) Val {
	com := call.Common()
	resT := com.Signature().Results()
	var args []Val
	// atcall clauses are checked in the function's own frame and in the frames of
	// callees that were inlined because they have no contract of their own
	root := fr
	inlinedOK := true
	for root.parent != nil {
		if fc.eng.contracts[root.fn.String()] != nil {
			inlinedOK = false
		}
		root = root.parent
	}
	// calls(F): count the calls of F made in the function's own body
	if fr.parent == nil && fc.con != nil && strings.Contains(fc.con.AllText, "calls(") {
		cname := ""
		if com.IsInvoke() {
			cname = com.Method.Name()
		} else if sc := com.StaticCallee(); sc != nil {
			cname = sc.Name()
		}
		if cname != "" && strings.Contains(fc.con.AllText, "calls("+cname+")") {
			if st.calls == nil {
				st.calls = map[string]string{}
			}
			cur, ok := st.calls[cname]
			if !ok {
				cur = "0"
			}
			st.calls[cname] = sx("+", cur, "1")
		}
	}
	if inlinedOK && fc.con != nil && len(fc.con.AtCall) > 0 {
		name := ""
		if com.IsInvoke() {
			name = com.Method.Name()
		} else if sc := com.StaticCallee(); sc != nil {
			name = sc.Name()
		}
		for _, ac := range fc.con.AtCall {
			if ac.Field != name {
				continue
			}
			avars := fc.paramVars(root)
			ai := 0
			if com.IsInvoke() {
				avars["arg0"] = fc.value(fr, st, com.Value)
				ai = 1
			}
			for _, a := range com.Args {
				avars[fmt.Sprintf("arg%d", ai)] = fc.value(fr, st, a)
				ai++
			}
			env := fc.specEnv(st, fc.oldSt, avars, root.fn.Pkg.Pkg, root, ac.Clause.Text)
			for _, part := range splitConj(ac.Clause.Expr) {
				var t string
				if fr.parent != nil {
					// inside an inlined callee the clause may name locals of the
					// function that are not yet defined at this call: not applicable there
					var ok bool
					if t, ok = env.tryBool(part); !ok {
						continue
					}
				} else {
					t = env.evalBool(part)
				}
				fc.oblige(fr, "atcall", name+": "+clauseName(ac.Clause), reach, t, env.quant, nil)
			}
		}
	}
	if com.IsInvoke() {
		recv := fc.value(fr, st, com.Value)
		for _, a := range com.Args {
			args = append(args, fc.value(fr, st, a))
		}
		return fc.invoke(fr, st, reach, call, recv, args)
	}
	for _, a := range com.Args {
		args = append(args, fc.value(fr, st, a))
	}
	if b, ok := com.Value.(*ssa.Builtin); ok {
		return fc.builtin(fr, st, reach, b, args, call)
	}
	callee := com.StaticCallee()
	var binds []Val
	if callee == nil {
		fv := fc.value(fr, st, com.Value)
		if fv.K == KFunc && fv.Fn != nil {
			callee = fv.Fn
			binds = fv.Bind
		} else {
			if fv.Orig != "" {
				if con := fc.eng.contracts["funcfield:"+fv.Orig]; con != nil {
					fc.oblige(fr, "nil", "func value "+fc.exprAt(fr, call.Pos(), isCall), reach, tNot(tEq(fv.S, "0")), false, nil)
					return fc.callByContractIface(fr, st, reach, con, fv, args, call)
				}
			}
			if n, ok := com.Value.Type().(*types.Named); ok && n.Obj().Pkg() != nil {
				if con := fc.eng.contracts["functype:"+n.Obj().Pkg().Path()+"."+n.Obj().Name()]; con != nil {
					fc.oblige(fr, "nil", "func value "+fc.exprAt(fr, call.Pos(), isCall), reach, tNot(fc.valEq(fv, zeroVal(fv.T))), false, nil)
					return fc.callByContractIface(fr, st, reach, con, fv, args, call)
				}
			}
			if n, ok := types.Unalias(com.Value.Type()).(*types.Named); ok && n.Obj().Pkg() != nil && !strings.HasPrefix(n.Obj().Pkg().Path(), repoMod) {
				return fc.unknownCall(fr, st, reach, "func value of external type "+n.Obj().Pkg().Path()+"."+n.Obj().Name(), resT, args, false)
			}
			return fc.unknownCall(fr, st, reach, "func value "+fc.exprAt(fr, call.Pos(), isCall), resT, args, true)
		}
	} else if mc, ok := com.Value.(*ssa.MakeClosure); ok {
		for _, b := range mc.Bindings {
			binds = append(binds, fc.value(fr, st, b))
		}
	}
	return fc.callFunc(fr, st, reach, callee, args, binds, call)
}

func resultType(tu *types.Tuple) types.Type {
	if tu.Len() == 1 {
		return tu.At(0).Type()
	}
	return tu
}

func (fc *FnCtx) callFunc(fr *Frame, st *State, reach string, callee *ssa.Function, args, binds []Val, call ssa.CallInstruction) Val {
	name := callee.String()
	resT := callee.Signature.Results()
	if h, ok := envFuncs[name]; ok {
		fc.assumption("T3 environment contract: " + name)
		return h(fc, fr, st, reach, args, call)
	}
	if con := fc.eng.contractFor(name, fc.props); con != nil && !con.Inline {
		eff := con.Effect
		if prim := fc.eng.contracts[name]; eff == "" && prim != nil {
			eff = prim.Effect // a property-scoped view inherits the verified effect class
		}
		if eff == "" && !fc.eng.inRepo(callee) && !blockingExternal(name) {
			eff = "nonblocking" // library function under an assumed contract: only the listed library calls block
		}
		if eff != "nonblocking" && (len(st.nbLocks) > 0 || (fc.con != nil && fc.con.Effect == "nonblocking")) {
			fc.blockingOp(fr, st, reach, "call of "+shortName(callee)+" (not declared non-blocking)")
		}
		if eff == "" {
			fc.unboundedWait(fr, reach, "call of "+shortName(callee)+" (no blocking effect declared)")
		}
		fc.curBinds = binds
		return fc.callByContract(fr, st, reach, con, callee, args, call)
	}
	if len(callee.Blocks) > 0 && fc.eng.inRepo(callee) {
		rec := false
		for _, f := range fc.stack {
			if f == callee {
				rec = true
			}
		}
		if !rec && len(fc.stack) < maxInlineDepth {
			return fc.inline(fr, st, reach, callee, args, binds, call)
		}
		return fc.unknownCall(fr, st, reach, "in-repo "+shortFn(callee)+" (not inlined: depth/recursion)", resT, args, true)
	}
	// external function without a model
	if blockingExternal(name) {
		fc.blockingOp(fr, st, reach, "call of "+name)
		fc.unboundedWait(fr, reach, "call of "+name)
	}
	return fc.unknownCall(fr, st, reach, name, resT, args, false)
}

// unknownCall: result havocked; byte slices passed in are havocked; the whole
// heap is havocked when the callee may touch tchannel objects.
func (fc *FnCtx) unknownCall(fr *Frame, st *State, reach, what string, resT *types.Tuple, args []Val, heapEffect bool) Val {
	if heapEffect {
		fc.assumption("unmodelled callee with heap effect (all heap havocked): " + what)
		fc.havocAll(st)
		fc.noteHavocAll()
	} else {
		ptrArg := false
		for _, a := range args {
			switch a.K {
			case KSlice:
				fc.havocElems(st, a)
			case KAddr:
				if a.A.Kind == AObj && fc.eng.isRepoType(a.A.T) {
					ptrArg = true
				}
			case KIface:
				// a statically known tchannel object behind an interface may be called back
				var id int
				if _, err := fmt.Sscanf(a.Tag, "%d", &id); err == nil && fmt.Sprint(id) == a.Tag {
					if t := fc.tagTypes[id]; t != nil && fc.eng.isRepoType(t) {
						ptrArg = true
					}
				}
			case KFunc:
				if a.Fn != nil && fc.eng.inRepo(a.Fn) {
					ptrArg = true
				}
			}
		}
		if ptrArg && pureExternal(what) {
			fc.assumption("A-EXT-PURE external callee that only stores or formats its arguments (no effect on tchannel objects): " + what)
			ptrArg = false
		}
		if ptrArg {
			fc.assumption("unmodelled external callee given a tchannel object (all heap havocked): " + what)
			fc.havocAll(st)
			fc.noteHavocAll()
		} else {
			fc.assumption("A-EXT external callee: result havocked, no effect on tchannel objects: " + what)
		}
	}
	return fc.freshVal(st, resultType(resT), "ext")
}

func (fc *FnCtx) havocElems(st *State, s Val) {
	et := s.T.Underlying().(*types.Slice).Elem()
	a := &Addr{Kind: AElem, Base: s.Arr, Idx: "0", ElemT: et, T: et}
	base, _ := fc.addrBase(a)
	walkVal(buildVal(et, "", func(suffix, sort string, t types.Type) string { return "" }), "", func(suffix, sort, term string, t types.Type) {
		l := loc{name: lname(base, suffix), idx: []string{"", ""}, sort: sort}
		cur := fc.heapTerm(st, l.name, l.arraySort())
		inner := fc.sc.fresh("hv", "(Array Int "+sort+")")
		oldInner := tSel(cur, s.Arr)
		lo, hi := s.Off, tAdd(s.Off, s.Len)
		fc.sc.assume("(forall ((j Int)) (! (=> (or (< j " + lo + ") (>= j " + hi + ")) (= (select " + inner + " j) (select " + oldInner + " j))) :pattern ((select " + inner + " j))))")
		st.heap[l.name] = fc.nameTerm("hh", l.arraySort(), tStore(cur, s.Arr, inner))
		fc.noteWrite(l.name)
	})
}

func (fc *FnCtx) inline(fr *Frame, st *State, reach string, callee *ssa.Function, args, binds []Val, call ssa.CallInstruction) Val {
	nf := &Frame{fn: callee, vals: map[ssa.Value]Val{}, prefix: fr.prefix + ">" + shortName(callee), parent: fr, names: map[string]ssa.Value{}}
	nf.loops = append([]*ssa.BasicBlock{}, fc.activeLoops...)
	for i, p := range callee.Params {
		nf.vals[p] = args[i]
	}
	for i, fv := range callee.FreeVars {
		if i < len(binds) {
			nf.vals[fv] = binds[i]
		}
	}
	fc.stack = append(fc.stack, callee)
	fc.inlined[shortFn(callee)] = true
	saved := fc.activeLoops
	savedPos := fc.curPos
	v, rr := fc.execBody(nf, st, reach)
	// partial correctness: execution continues in the caller only if the callee returned
	// (paths cut at loop back edges or ending in a panic obligation do not leak into the caller)
	fc.sc.assume(tImp(reach, rr))
	fc.activeLoops = saved
	fc.curPos = savedPos
	fc.stack = fc.stack[:len(fc.stack)-1]
	return v
}

func shortName(fn *ssa.Function) string {
	s := fn.Name()
	if r := fn.Signature.Recv(); r != nil {
		t := r.Type()
		if p, ok := t.(*types.Pointer); ok {
			t = p.Elem()
		}
		if n, ok := t.(*types.Named); ok {
			s = n.Obj().Name() + "." + s
		}
	}
	return s
}

// ---------- builtins ----------

func (fc *FnCtx) builtin(fr *Frame, st *State, reach string, b *ssa.Builtin, args []Val, call ssa.CallInstruction) Val {
	resT := call.Common().Signature().Results()
	switch b.Name() {
	case "len":
		x := args[0]
		switch x.K {
		case KSlice:
			return intVal(types.Typ[types.Int], x.Len)
		case KStr:
			return intVal(types.Typ[types.Int], sx("str.len", x.S))
		case KInt: // map or chan
			if _, ok := x.T.Underlying().(*types.Map); ok {
				return intVal(types.Typ[types.Int], fc.mapLen(st, x))
			}
			return fc.freshNonNeg(st, "chanlen")
		case KAddr:
			if arr, ok := x.A.T.Underlying().(*types.Array); ok {
				return intVal(types.Typ[types.Int], num(arr.Len()))
			}
		case KArray:
			return intVal(types.Typ[types.Int], num(x.T.Underlying().(*types.Array).Len()))
		}
	case "cap":
		x := args[0]
		if x.K == KSlice {
			return intVal(types.Typ[types.Int], x.Cap)
		}
		return fc.freshNonNeg(st, "cap")
	case "append":
		return fc.appendOp(fr, st, reach, args[0], args[1])
	case "copy":
		return fc.copyOp(fr, st, reach, args[0], args[1])
	case "delete":
		fc.mapDelete(fr, st, reach, args[0], args[1])
		return Val{K: KTuple, T: types.NewTuple()}
	case "close":
		fc.assumption("A-CHAN: channel operations are nondeterministic (no FIFO, no blocking semantics)")
		return Val{K: KTuple, T: types.NewTuple()}
	case "recover":
		return zeroVal(resT.At(0).Type())
	case "print", "println":
		return Val{K: KTuple, T: types.NewTuple()}
	case "min", "max":
		r := args[0]
		for _, a := range args[1:] {
			c := sx("<", a.S, r.S)
			if b.Name() == "max" {
				c = sx(">", a.S, r.S)
			}
			r = intVal(r.T, tIte(c, a.S, r.S))
		}
		return r
	}
	unsup("builtin %s", b.Name())
	return Val{}
}

func (fc *FnCtx) freshNonNeg(st *State, hint string) Val {
	v := fc.freshVal(st, types.Typ[types.Int], hint)
	fc.sc.assume(sx("<=", "0", v.S))
	return v
}

// appendOp: in place when capacity allows, otherwise a fresh array holding a
// copy of the prefix.
func (fc *FnCtx) appendOp(fr *Frame, st *State, reach string, s, extra Val) Val {
	if s.K != KSlice {
		unsup("append to non-slice")
	}
	et := s.T.Underlying().(*types.Slice).Elem()
	var n string
	switch extra.K {
	case KSlice:
		n = extra.Len
	case KStr:
		n = sx("str.len", extra.S)
	default:
		unsup("append of kind %d", extra.K)
	}
	newLen := sx("+", s.Len, n)
	fits := fc.nameTerm("fits", "Bool", sx("<=", newLen, s.Cap))
	freshArr := fc.newRef(st, "app")
	ncap := fc.sc.fresh("appcap", "Int")
	fc.sc.assume(tAnd(sx(">=", ncap, newLen), sx("<=", ncap, maxLen)))
	res := Val{K: KSlice, T: s.T, Arr: tIte(fits, s.Arr, freshArr), Off: tIte(fits, s.Off, "0"), Len: newLen, Cap: tIte(fits, s.Cap, ncap)}
	res = fc.nameVal(res, "app")
	// element memory: for each leaf array, new inner array agrees with the old
	// prefix and with extra on the appended range.
	a := &Addr{Kind: AElem, Base: s.Arr, Idx: "0", ElemT: et, T: et}
	base, _ := fc.addrBase(a)
	walkVal(buildVal(et, "", func(suffix, sort string, t types.Type) string { return "" }), "", func(suffix, sort, term string, t types.Type) {
		l := loc{name: lname(base, suffix), idx: []string{"", ""}, sort: sort}
		cur := fc.heapTerm(st, l.name, l.arraySort())
		inner := fc.sc.fresh("appi", "(Array Int "+sort+")")
		oldInner := tSel(cur, s.Arr)
		// prefix preserved (and everything outside the appended window when in place)
		fc.sc.assume("(forall ((k Int)) (! (=> (and (<= " + res.Off + " k) (< k (+ " + res.Off + " " + s.Len + "))) (= (select " + inner + " k) (select " + oldInner + " (+ (- k " + res.Off + ") " + s.Off + ")))) :pattern ((select " + inner + " k))))")
		fc.sc.assume(tImp(fits, "(forall ((k Int)) (! (=> (or (< k (+ "+s.Off+" "+s.Len+")) (>= k (+ "+s.Off+" "+newLen+"))) (= (select "+inner+" k) (select "+oldInner+" k))) :pattern ((select "+inner+" k))))"))
		if extra.K == KSlice {
			src := tSel(cur, extra.Arr)
			lo2 := "(+ " + res.Off + " " + s.Len + ")"
			fc.sc.assume("(forall ((k Int)) (! (=> (and (<= " + lo2 + " k) (< k (+ " + lo2 + " " + n + "))) (= (select " + inner + " k) (select " + src + " (+ (- k " + lo2 + ") " + extra.Off + ")))) :pattern ((select " + inner + " k))))")
		}
		st.heap[l.name] = fc.nameTerm("ha", l.arraySort(), tStore(cur, res.Arr, inner))
		fc.noteWrite(l.name)
	})
	return res
}

func (fc *FnCtx) copyOp(fr *Frame, st *State, reach string, dst, src Val) Val {
	if dst.K != KSlice {
		unsup("copy to non-slice")
	}
	var sl string
	switch src.K {
	case KSlice:
		sl = src.Len
	case KStr:
		sl = sx("str.len", src.S)
	default:
		unsup("copy from kind %d", src.K)
	}
	n := fc.nameTerm("ncopy", "Int", tIte(sx("<", dst.Len, sl), dst.Len, sl))
	et := dst.T.Underlying().(*types.Slice).Elem()
	a := &Addr{Kind: AElem, Base: dst.Arr, Idx: "0", ElemT: et, T: et}
	base, _ := fc.addrBase(a)
	walkVal(buildVal(et, "", func(suffix, sort string, t types.Type) string { return "" }), "", func(suffix, sort, term string, t types.Type) {
		l := loc{name: lname(base, suffix), idx: []string{"", ""}, sort: sort}
		cur := fc.heapTerm(st, l.name, l.arraySort())
		inner := fc.sc.fresh("cpy", "(Array Int "+sort+")")
		oldInner := tSel(cur, dst.Arr)
		lo, hi := dst.Off, tAdd(dst.Off, n)
		fc.sc.assume("(forall ((j Int)) (! (=> (or (< j " + lo + ") (>= j " + hi + ")) (= (select " + inner + " j) (select " + oldInner + " j))) :pattern ((select " + inner + " j))))")
		if src.K == KSlice {
			srcInner := tSel(cur, src.Arr)
			fc.sc.assume("(forall ((k Int)) (! (=> (and (<= " + lo + " k) (< k " + hi + ")) (= (select " + inner + " k) (select " + srcInner + " (+ (- k " + dst.Off + ") " + src.Off + ")))) :pattern ((select " + inner + " k))))")
		} else {
			fc.sc.assume("(forall ((k Int)) (! (=> (and (<= " + lo + " k) (< k " + hi + ")) (= (select " + inner + " k) (str.to_code (str.at " + src.S + " (- k " + dst.Off + "))))) :pattern ((select " + inner + " k))))")
			fc.sc.assume(tEq(sx("str_of_bytes", inner, dst.Off, n), sx("str.substr", src.S, "0", n)))
		}
		st.heap[l.name] = fc.nameTerm("hc", l.arraySort(), tStore(cur, dst.Arr, inner))
		fc.noteWrite(l.name)
	})
	return intVal(types.Typ[types.Int], n)
}

// ---------- defers ----------

func (fc *FnCtx) execDefer(fr *Frame, st *State, reach string, d *ssa.Defer) {
	com := d.Common()
	var args []Val
	var recv Val
	if com.IsInvoke() {
		recv = fc.value(fr, st, com.Value)
	}
	for _, a := range com.Args {
		args = append(args, fc.value(fr, st, a))
	}
	var fv Val
	if !com.IsInvoke() {
		if _, ok := com.Value.(*ssa.Builtin); !ok {
			fv = fc.value(fr, st, com.Value)
		}
	}
	cond := reach
	st.defers = append(st.defers, deferred{cond: cond, frame: fr, block: d.Block(), run: func(fc *FnCtx, st *State, reach string) {
		if com.IsInvoke() {
			fc.invoke(fr, st, reach, d, recv, args)
			return
		}
		if b, ok := com.Value.(*ssa.Builtin); ok {
			fc.builtin(fr, st, reach, b, args, d)
			return
		}
		callee := com.StaticCallee()
		var binds []Val
		if callee == nil {
			if fv.K == KFunc && fv.Fn != nil {
				callee, binds = fv.Fn, fv.Bind
			} else {
				if fv.Orig != "" {
					if con := fc.eng.contracts["funcfield:"+fv.Orig]; con != nil {
						fc.callByContractIface(fr, st, reach, con, fv, args, d)
						return
					}
				}
				if n, ok := types.Unalias(com.Value.Type()).(*types.Named); ok && n.Obj().Pkg() != nil {
					if con := fc.eng.contracts["functype:"+n.Obj().Pkg().Path()+"."+n.Obj().Name()]; con != nil {
						fc.callByContractIface(fr, st, reach, con, fv, args, d)
						return
					}
					if !strings.HasPrefix(n.Obj().Pkg().Path(), repoMod) {
						fc.unknownCall(fr, st, reach, "deferred func value of external type "+n.Obj().Name(), com.Signature().Results(), args, false)
						return
					}
				}
				fc.unknownCall(fr, st, reach, "deferred func value", com.Signature().Results(), args, true)
				return
			}
		} else if fv.K == KFunc {
			binds = fv.Bind
		}
		fc.callFunc(fr, st, reach, callee, args, binds, d)
	}})
}

func (fc *FnCtx) runDefers(fr *Frame, st *State, reach string) {
	// run this frame's defers in LIFO order, each guarded by the condition
	// under which it was registered.
	var mine []deferred
	var rest []deferred
	for _, d := range st.defers {
		if d.frame == fr {
			mine = append(mine, d)
		} else {
			rest = append(rest, d)
		}
	}
	st.defers = rest
	for i := len(mine) - 1; i >= 0; i-- {
		d := mine[i]
		g := tAnd(reach, d.cond)
		if g == "false" {
			continue
		}
		if d.cond == reach || (fc.curBlock != nil && d.block.Dominates(fc.curBlock)) {
			d.run(fc, st, reach)
			continue
		}
		before := st.clone()
		d.run(fc, st, g)
		merged := fc.mergeStates(d.cond, st, before)
		*st = *merged
	}
}

// ---------- interface method calls ----------

func (fc *FnCtx) invoke(fr *Frame, st *State, reach string, call ssa.CallInstruction, recv Val, args []Val) Val {
	com := call.Common()
	m := com.Method
	resT := com.Signature().Results()
	iname := types.TypeString(com.Value.Type(), nil) + "." + m.Name()
	fc.oblige(fr, "nil", fc.exprAt(fr, call.Pos(), isCall), reach, tNot(tEq(recv.Tag, "0")), false, nil)
	// a written contract for the method replaces the built-in environment fact
	if con := fc.eng.contracts[iname]; con != nil {
		return fc.callByContractIface(fr, st, reach, con, recv, args, call)
	}
	if h, ok := envInvoke[iname]; ok {
		fc.assumption("T3/T4 environment contract: " + iname)
		return h(fc, fr, st, reach, recv, args, call)
	}
	if fc.eng.benignIface(com.Value.Type(), m.Name()) {
		fc.assumption("T4 benign interface (result havocked, no effect on tchannel objects): " + iname)
		for _, a := range args {
			if a.K == KSlice {
				fc.havocElems(st, a)
			}
		}
		return fc.freshVal(st, resultType(resT), "inv")
	}
	// dynamic dispatch over known implementations when the tag is a constant
	if fn := fc.staticDispatch(recv, m); fn != nil {
		rv := fc.unbox(st, recv.S, fn.Signature.Recv().Type())
		return fc.callFunc(fr, st, reach, fn, append([]Val{rv}, args...), nil, call)
	}
	return fc.unknownCall(fr, st, reach, "interface method "+iname, resT, args, true)
}

func (fc *FnCtx) staticDispatch(recv Val, m *types.Func) *ssa.Function {
	var id int
	if _, err := fmt.Sscanf(recv.Tag, "%d", &id); err != nil || fmt.Sprint(id) != recv.Tag {
		return nil
	}
	t := fc.tagTypes[id]
	if t == nil {
		return nil
	}
	sel := fc.eng.prog.MethodSets.MethodSet(t).Lookup(m.Pkg(), m.Name())
	if sel == nil {
		return nil
	}
	return fc.eng.prog.MethodValue(sel)
}

// pureExternal: standard-library functions that keep or format the objects
// they are given but never call back into them in a way that mutates tchannel
// state (context values, formatting, string and time helpers).
func pureExternal(name string) bool {
	name = strings.TrimPrefix(name, "(")
	name = strings.TrimPrefix(name, "*")
	for _, p := range []string{"context.", "golang.org/x/net/context.", "fmt.", "strings.", "strconv.", "errors.", "time.", "math.", "github.com/opentracing/opentracing-go", "unicode", "net.", "os.", "runtime.", "reflect.", "sync/atomic.", "go.uber.org/atomic."} {
		if strings.HasPrefix(name, p) {
			return true
		}
	}
	return false
}

// blockingExternal: standard-library calls that may block indefinitely.
func blockingExternal(name string) bool {
	for _, p := range []string{"io.ReadFull", "io.Copy", "io.ReadAtLeast", "time.Sleep", "(*sync.WaitGroup).Wait", "(*sync.Cond).Wait", "net.Dial", "(*net.Dialer).Dial", "io/ioutil.ReadAll", "io.ReadAll"} {
		if strings.HasPrefix(name, p) {
			return true
		}
	}
	return false
}
