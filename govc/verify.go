package main

import (
	"fmt"
	"go/ast"
	"go/token"
	"go/parser"
	"go/types"
	"sort"
	"strings"

	"golang.org/x/tools/go/ssa"
)

type ssaGlobal = ssa.Global
type ssaFunction = ssa.Function
type ssaValue = ssa.Value

// bindParams maps the names in the contract header (or the SSA parameter
// names) to argument values.
func bindParams(con *Contract, fn *ssa.Function, args []Val) map[string]Val {
	vars := map[string]Val{}
	if fn != nil {
		for i, p := range fn.Params {
			if i < len(args) {
				vars[p.Name()] = args[i]
			}
		}
	}
	if con != nil && con.Decl != nil {
		i := 0
		if con.Decl.Recv != nil {
			for _, f := range con.Decl.Recv.List {
				for _, n := range f.Names {
					if i < len(args) {
						vars[n.Name] = args[i]
					}
				}
				i++
			}
		}
		for _, f := range con.Decl.Type.Params.List {
			if len(f.Names) == 0 {
				i++
				continue
			}
			for _, n := range f.Names {
				if i < len(args) {
					vars[n.Name] = args[i]
				}
				i++
			}
		}
	}
	return vars
}

func bindResults(con *Contract, sig *types.Signature, res Val, vars map[string]Val) {
	n := sig.Results().Len()
	var rs []Val
	switch n {
	case 0:
	case 1:
		rs = []Val{res}
	default:
		rs = res.Fs
	}
	for i, r := range rs {
		vars[fmt.Sprintf("result%d", i)] = r
		if nm := sig.Results().At(i).Name(); nm != "" && nm != "_" {
			vars[nm] = r
		}
	}
	if n == 1 {
		vars["result"] = res
	}
	if con != nil && con.Decl != nil && con.Decl.Type.Results != nil {
		i := 0
		for _, f := range con.Decl.Type.Results.List {
			if len(f.Names) == 0 {
				i++
				continue
			}
			for _, nm := range f.Names {
				if i < len(rs) {
					vars[nm.Name] = rs[i]
				}
				i++
			}
		}
	}
}

func clauseName(cl *Clause) string {
	if cl.Label != "" {
		return cl.Label
	}
	return cl.Text
}

func (fc *FnCtx) specEnv(st, old *State, vars map[string]Val, pkg *types.Package, fr *Frame, what string) *SpecEnv {
	return &SpecEnv{fc: fc, st: st, old: old, vars: vars, pkg: pkg, fr: fr, bound: map[string]Val{}, what: what}
}

// callByContract: assert requires, havoc modifies, assume ensures.
func (fc *FnCtx) callByContract(fr *Frame, st *State, reach string, con *Contract, callee *ssa.Function, args []Val, call ssa.CallInstruction) Val {
	fc.usedContracts[con.Key] = true
	if con.Trusted {
		fc.assumption("trusted contract (assumed, not verified): " + con.Header)
	}
	vars := bindParams(con, callee, args)
	// a closure under contract: its captured variables can be named in the contract
	if binds := fc.curBinds; binds != nil && callee != nil {
		for i, fv := range callee.FreeVars {
			if i < len(binds) {
				v := binds[i]
				// captured variables are cells (pointers to the variable): name the value
				if v.K == KAddr && (v.A.Kind == ACell || capturedByRef(callee, i)) {
					v = fc.load(st, v.A)
				}
				vars[fv.Name()] = v
			}
		}
	}
	fc.curBinds = nil
	sig := callee.Signature
	// pointer arguments non-nil
	for i, a := range args {
		if i >= len(callee.Params) {
			break
		}
		if a.K == KAddr && a.A.Kind == AObj && len(a.A.Path) == 0 && a.A.Idx == "" && !fc.nonNil[a.A.Base] &&
			!con.nilable(callee.Params[i].Name(), i == 0 && sig.Recv() != nil) {
			fc.oblige(fr, "nil", "argument "+callee.Params[i].Name()+" of "+shortName(callee), reach, tNot(tEq(a.A.Base, "0")), false, nil)
		}
	}
	for _, cl := range con.Requires {
		env := fc.specEnv(st, nil, vars, con.Pkg, nil, cl.Text)
		t := env.evalBool(cl.Expr)
		fc.oblige(fr, "requires", shortName(callee)+": "+clauseName(cl), reach, t, env.quant, nil)
	}
	fc.consume(fr, st, reach, con, vars, con.Consumes, "call "+shortName(callee), "true")
	pre := st.clone()
	fc.curCallee = callee
	deferred := fc.applyModifies(st, pre, con, vars)
	fc.curCallee = nil
	var res Val
	if con.Pure {
		res = fc.pureResult(st, callee, args, resultType(sig.Results()))
	} else {
		res = fc.freshVal(st, resultType(sig.Results()), "res_"+callee.Name())
	}
	bindResults(con, sig, res, vars)
	if len(deferred) > 0 {
		t2, _ := fc.evalModifiesD(st, con, deferred, vars, false)
		fc.havocTargets(st, t2)
	}
	defs := append([]*Clause{}, con.Defines...)
	if prim := fc.eng.contracts[con.Key]; prim != nil && prim != con {
		// a property-scoped view also carries the primary contract's definitions of
		// volatile ghosts (observation registers are not part of any frame)
		for _, cl := range prim.Defines {
			for n, g := range fc.eng.ghosts {
				if g.Field && g.Volatile && strings.Contains(cl.Text, n+"(") {
					defs = append(defs, cl)
					break
				}
			}
		}
	}
	for i, cl := range append(defs, con.Ensures...) {
		env := fc.specEnv(st, pre, vars, con.Pkg, nil, cl.Text)
		var t string
		if i < len(defs) {
			if fc.mentionsUnusedVolatile(cl.Text) {
				continue // defines an observation register this function never looks at
			}
			// a ghost definition may name locals of the callee's body (e.g. a loop
			// index): such a clause only has a meaning inside the callee
			var ok bool
			if _, ok = env.tryBool(cl.Expr); !ok {
				continue
			}
			// ghost assignment: the assigned cells are forgotten first (also when the
			// callee's keep-list names the ghost: the definition is the one exception)
			fc.ghostAssignTargets(env, cl.Expr)
			t = env.evalBool(cl.Expr)
		} else {
			if fc.mentionsUnusedVolatile(cl.Text) {
				continue // a fact about an observation register this function never looks at
			}
			t = env.evalBool(cl.Expr)
		}
		fc.sc.assume(tImp(reach, t))
	}
	// struct invariants hold for the objects a callee returns
	if len(fc.eng.structInvs) > 0 {
		rs := []Val{res}
		if res.K == KTuple {
			rs = res.Fs
		}
		for _, r := range rs {
			fc.assumeStructInv(st, r)
		}
	}
	return res
}

// pureResult: the result of a `pure` function is an uninterpreted function of
// its scalar arguments, so repeated calls (in code and in specs) agree.
func (fc *FnCtx) pureResult(st *State, callee *ssa.Function, args []Val, rt types.Type) Val {
	fc.assumption("pure function modelled as a function of its arguments (and immutable boxed values) only: " + shortFn(callee))
	var as, sorts []string
	for _, a := range args {
		walkVal(a, "", func(suffix, sort, term string, t types.Type) {
			as = append(as, term)
			sorts = append(sorts, sort)
		})
	}
	base := "pure$" + sanitize(shortFn(callee))
	v := buildVal(rt, "", func(suffix, sort string, t types.Type) string {
		name := base + sanitize(suffix)
		fc.sc.declareFun(name, sorts, sort)
		if len(as) == 0 {
			return name
		}
		return sx(name, as...)
	})
	fc.sc.assume(fc.typeInv(st, v))
	return v
}

func (fc *FnCtx) callByContractIface(fr *Frame, st *State, reach string, con *Contract, recv Val, args []Val, call ssa.CallInstruction) Val {
	fc.usedContracts[con.Key] = true
	fc.assumption("interface contract (assumed for implementations outside the verified set): " + con.Header)
	all := append([]Val{recv}, args...)
	vars := bindParams(con, nil, all)
	sig := call.Common().Signature()
	for _, cl := range con.Requires {
		env := fc.specEnv(st, nil, vars, con.Pkg, nil, cl.Text)
		t := env.evalBool(cl.Expr)
		fc.oblige(fr, "requires", con.Decl.Name.Name+": "+clauseName(cl), reach, t, env.quant, nil)
	}
	fc.consume(fr, st, reach, con, vars, con.Consumes, "call "+con.Decl.Name.Name, "true")
	pre := st.clone()
	deferred := fc.applyModifies(st, pre, con, vars)
	res := fc.freshVal(st, resultType(sig.Results()), "res_"+con.Decl.Name.Name)
	bindResults(con, sig, res, vars)
	if len(deferred) > 0 {
		t2, _ := fc.evalModifiesD(st, con, deferred, vars, false)
		fc.havocTargets(st, t2)
	}
	for _, cl := range con.Ensures {
		if fc.mentionsUnusedVolatile(cl.Text) {
			continue
		}
		env := fc.specEnv(st, pre, vars, con.Pkg, nil, cl.Text)
		fc.sc.assume(tImp(reach, env.evalBool(cl.Expr)))
	}
	return res
}

// modTarget is one evaluated modifies item.
type modTarget struct {
	kind  string // "field", "elems", "obj", "ghost"
	ghost string
	ref   string
	addr  *Addr
	slice Val
	text  string
}

// evalModifies evaluates the modifies items. Items that mention a result
// (not yet bound in vars) are returned in deferred when allowDefer is set.
func (fc *FnCtx) evalModifies(pre *State, con *Contract, vars map[string]Val) []modTarget {
	out, _ := fc.evalModifiesD(pre, con, con.Modifies, vars, false)
	return out
}

func (fc *FnCtx) evalModifiesD(pre *State, con *Contract, items []string, vars map[string]Val, allowDefer bool) (out []modTarget, deferred []string) {
	for _, m := range items {
		one, err := fc.evalModItem(pre, con, m, vars)
		if err != "" {
			if allowDefer && strings.Contains(err, "unknown identifier") {
				deferred = append(deferred, m)
				continue
			}
			panic(specErr{err})
		}
		out = append(out, one...)
	}
	return
}

func (fc *FnCtx) evalModItem(pre *State, con *Contract, m string, vars map[string]Val) (out []modTarget, errMsg string) {
	defer func() {
		if r := recover(); r != nil {
			if se, ok := r.(specErr); ok {
				errMsg = se.msg
				return
			}
			panic(r)
		}
	}()
	{
		env := fc.specEnv(pre, nil, vars, con.Pkg, nil, "modifies "+m)
		if i := strings.Index(m, "("); i > 0 && strings.HasSuffix(m, ")") {
			if g := fc.eng.ghosts[m[:i]]; g != nil && g.Field {
				sp, err := parseSpec(m[i+1 : len(m)-1])
				if err != nil {
					env.fail("%v", err)
				}
				out = append(out, modTarget{kind: "ghost", ghost: g.Name, ref: refOf(env.eval(sp)), text: m})
				return
			}
		}
		if strings.HasPrefix(m, "contents(") && strings.HasSuffix(m, ")") {
			sp, err := parseSpec(m[9 : len(m)-1])
			if err != nil {
				env.fail("%v", err)
			}
			v := env.eval(sp)
			if _, isMap := v.T.Underlying().(*types.Map); !isMap {
				env.fail("contents() needs a map")
			}
			out = append(out, modTarget{kind: "map", slice: v, ref: v.S, text: m})
			return
		}
		switch {
		case strings.HasPrefix(m, "elems(") && strings.HasSuffix(m, ")"):
			sp, err := parseSpec(m[6 : len(m)-1])
			if err != nil {
				env.fail("%v", err)
			}
			out = append(out, modTarget{kind: "elems", slice: env.eval(sp), text: m})
		case strings.HasSuffix(m, ".*"):
			sp, err := parseSpec(m[:len(m)-2])
			if err != nil {
				env.fail("%v", err)
			}
			v := env.eval(sp)
			if v.K == KIface {
				for _, t := range fc.eng.implementers(v.T) {
					if pt, ok := t.(*types.Pointer); ok && structOf(pt.Elem()) != nil {
						out = append(out, modTarget{kind: "obj", addr: &Addr{Kind: AObj, Base: v.S, Root: pt.Elem(), T: pt.Elem()}, text: m})
					}
				}
				return
			}
			if v.K != KAddr {
				env.fail("x.* needs a pointer")
			}
			out = append(out, modTarget{kind: "obj", addr: v.A, text: m})
		default:
			sp, err := parseSpec(m)
			if err != nil {
				env.fail("%v", err)
			}
			if g, ok := sp.(*SGo); ok {
				if id, ok := g.E.(*ast.Ident); ok && env.isVar(id.Name) {
					v := env.eval(sp)
					if _, isMap := v.T.Underlying().(*types.Map); isMap {
						out = append(out, modTarget{kind: "map", slice: v, ref: v.S, text: m})
						return
					}
				}
			}
			a := env.lvalue(sp)
			out = append(out, modTarget{kind: "field", addr: a, text: m})
			if mt, ok := a.T.Underlying().(*types.Map); ok {
				mv := fc.load(pre, a)
				_ = mt
				out = append(out, modTarget{kind: "map", slice: mv, ref: mv.S, text: m})
			}
		}
	}
	return
}

// lvalue evaluates x.f.g to the address of the field.
func (env *SpecEnv) lvalue(sp Spec) *Addr {
	g, ok := sp.(*SGo)
	if !ok {
		env.fail("not an lvalue")
	}
	switch t := g.E.(type) {
	case *ast.SelectorExpr:
		var x Val
		if _, isSel := t.X.(*ast.SelectorExpr); isSel {
			// the base may itself be a pointer-typed expression (a pointer field of a struct value)
			if v, ok := env.tryExpr(t.X); ok && v.K == KAddr && v.T != nil && isPointer(v.T) {
				x = v
			}
		}
		if inner, ok := t.X.(*ast.SelectorExpr); ok && x.A == nil {
			// x.a.b where a is a struct-valued field: address of x.a, extended
			if _, isPkg := inner.X.(*ast.Ident); !isPkg || env.isVar(inner.X.(*ast.Ident).Name) {
				base := env.lvalue(&SGo{inner})
				if structOf(base.T) != nil && !isPointer(base.T) {
					x = Val{K: KAddr, T: types.NewPointer(base.T), A: base}
				}
			}
		}
		if x.A == nil {
			x = env.expr(t.X)
		}
		if x.K != KAddr {
			env.fail("lvalue base is not a pointer")
		}
		st := structOf(x.A.T)
		if st == nil {
			env.fail("lvalue base is not a struct pointer")
		}
		obj, idx, _ := types.LookupFieldOrMethod(x.A.T, true, pkgOfType(x.A.T, env.pkg), t.Sel.Name)
		if obj == nil {
			env.fail("no field %s", t.Sel.Name)
		}
		a := *x.A
		cur := x.A.T
		for k, i := range idx {
			s := structOf(cur)
			f := s.Field(i)
			if _, isPtr := cur.Underlying().(*types.Pointer); isPtr || (k > 0 && isPointer(cur)) {
				env.fail("lvalue through embedded pointer not supported")
			}
			a.Path = append(append([]int{}, a.Path...), i)
			cur = f.Type()
		}
		a.T = cur
		return &a
	case *ast.StarExpr:
		x := env.expr(t.X)
		if x.K != KAddr {
			env.fail("deref of non-pointer")
		}
		return x.A
	case *ast.Ident:
		// package-level variable
		if env.pkg != nil {
			if v, ok := env.pkg.Scope().Lookup(t.Name).(*types.Var); ok {
				sp := env.fc.eng.prog.Package(v.Pkg())
				g := sp.Members[v.Name()].(*ssa.Global)
				pt := g.Type().(*types.Pointer).Elem()
				return &Addr{Kind: AGlobal, Global: g, Root: pt, T: pt}
			}
		}
	}
	env.fail("unsupported lvalue %s", types.ExprString(g.E))
	return nil
}

func (env *SpecEnv) tryBool(sp Spec) (t string, ok bool) {
	defer func() {
		if r := recover(); r != nil {
			if !strings.Contains(fmt.Sprint(r), "unknown identifier") {
				panic(r)
			}
			ok = false
		}
	}()
	return env.evalBool(sp), true
}

func (env *SpecEnv) tryExpr(e ast.Expr) (v Val, ok bool) {
	defer func() {
		if r := recover(); r != nil {
			ok = false
		}
	}()
	return env.expr(e), true
}

func (env *SpecEnv) isVar(name string) bool {
	_, ok := env.lookupVar(name)
	return ok
}

func isPointer(t types.Type) bool { _, ok := t.Underlying().(*types.Pointer); return ok }

func pkgOfType(t types.Type, def *types.Package) *types.Package {
	if n := namedOf(t); n != nil && n.Obj().Pkg() != nil {
		return n.Obj().Pkg()
	}
	return def
}

func (fc *FnCtx) applyModifies(st, pre *State, con *Contract, vars map[string]Val) (deferred []string) {
	if con.ModAll {
		fc.havocAllBut(st, fc.keepPrefixes(con))
		fc.noteHavocAll()
		return nil
	}
	targets, deferred := fc.evalModifiesD(pre, con, con.Modifies, vars, true)
	fc.havocTargets(st, targets)
	// the built-in send-attempt counter is not part of user frames: a callee that
	// does not name it may have sent on any channel
	if !mentionsSendTries(con) && len(con.Modifies) > 0 {
		st.heap["GH$sendtries"] = fc.sc.fresh("gh_sendtries", "(Array Int Int)")
		fc.sorts["GH$sendtries"] = "(Array Int Int)"
	}
	fc.forgetVolatileGhosts(st, con)
	// callee allocations: allocation only grows
	if con.allocates() {
		old := fc.alloc(st)
		nw := fc.sc.fresh("alloc_c", "(Array Int Bool)")
		fc.sc.assume("(forall ((r Int)) (! (=> (select " + old + " r) (select " + nw + " r)) :pattern ((select " + nw + " r))))")
		st.heap["Alloc"] = nw
		fc.noteWrite("Alloc")
	}
	return deferred
}

// forgetVolatileGhosts: a volatile ghost field is not covered by anybody's frame,
// so every call by contract forgets it (a `defines` clause of the callee then
// gives it its new value).
func (fc *FnCtx) forgetVolatileGhosts(st *State, con *Contract) {
	var gn []string
	for n := range fc.eng.ghosts {
		gn = append(gn, n)
	}
	sort.Strings(gn)
	for _, n := range gn {
		if g := fc.eng.ghosts[n]; g.Field && g.Volatile && fc.usesVolatile(n) {
			// a verified callee with an explicit frame that cannot reach a definer of
			// the ghost (static calls only, no dynamic dispatch) leaves it alone
			if fc.curCallee != nil && con != nil && !con.Trusted && !con.ModAll && !fc.eng.mayDefineGhost(fc.curCallee, n, map[*ssa.Function]bool{}) {
				continue
			}
			srt := "(Array Int " + g.Ret + ")"
			st.heap["GH$"+n] = fc.sc.fresh("gh_"+n, srt)
			fc.sorts["GH$"+n] = srt
		}
	}
}

// usesVolatile: only functions whose own contract mentions a volatile ghost ever
// read it (spec evaluation refuses the read otherwise), so the others need not
// model it at all -- their verification conditions stay as they were.
func (fc *FnCtx) usesVolatile(name string) bool {
	return fc.con != nil && strings.Contains(fc.con.AllText, name+"(")
}

// mayDefineGhost: can a call of fn change the volatile ghost g? Yes if its
// contract defines g, if it makes any dynamic call (interface method, function
// value), or if a statically called function can.
func (e *Engine) mayDefineGhost(fn *ssa.Function, g string, seen map[*ssa.Function]bool) bool {
	if seen[fn] {
		return false
	}
	seen[fn] = true
	if con := e.contracts[fn.String()]; con != nil {
		for _, cl := range con.Defines {
			if strings.Contains(cl.Text, g+"(") {
				return true
			}
		}
	}
	if g == "recvtries" {
		return true // built-in: any receive changes it; not tracked per function
	}
	if fn.Blocks == nil {
		return !pureExternal(fn.String()) && fn.Pkg != nil && strings.HasPrefix(fn.Pkg.Pkg.Path(), repoMod)
	}
	for _, b := range fn.Blocks {
		for _, ins := range b.Instrs {
			ci, ok := ins.(ssa.CallInstruction)
			if !ok {
				continue
			}
			com := ci.Common()
			if _, isB := com.Value.(*ssa.Builtin); isB {
				continue
			}
			callee := com.StaticCallee()
			if callee == nil {
				return true
			}
			if callee.Pkg == nil || !strings.HasPrefix(callee.Pkg.Pkg.Path(), repoMod) {
				continue // library code does not call back into the definers (T3)
			}
			if e.mayDefineGhost(callee, g, seen) {
				return true
			}
		}
	}
	for _, anon := range fn.AnonFuncs {
		if e.mayDefineGhost(anon, g, seen) {
			return true
		}
	}
	return false
}

func (fc *FnCtx) mentionsUnusedVolatile(text string) bool {
	for n, g := range fc.eng.ghosts {
		if g.Field && g.Volatile && strings.Contains(text, n+"(") && !fc.usesVolatile(n) {
			for n2, g2 := range fc.eng.ghosts {
				if g2.Field && !g2.Volatile && strings.Contains(text, n2+"(") {
					unsup("a defines clause mixes the volatile ghost %s with %s", n, n2)
				}
			}
			return true
		}
	}
	return false
}

func (fc *FnCtx) isVolatileGhost(heapName string) bool {
	if !strings.HasPrefix(heapName, "GH$") {
		return false
	}
	g := fc.eng.ghosts[strings.TrimPrefix(heapName, "GH$")]
	return g != nil && g.Volatile
}

func mentionsSendTries(con *Contract) bool {
	for _, m := range con.Modifies {
		if strings.Contains(m, "sendtries(") {
			return true
		}
	}
	return false
}

func (fc *FnCtx) havocTargets(st *State, targets []modTarget) {
	for _, m := range targets {
		switch m.kind {
		case "field":
			// a callee that may change a monitor-guarded field stands for the other
			// threads' writes observed at its lock acquisition (see lockOp)
			vol := len(fc.monitorsGuarding(m.addr)) > 0 && !fc.inAcquire
			if vol {
				fc.inAcquire = true
			}
			fc.havocAddr(st, m.addr)
			if vol {
				fc.inAcquire = false
			}
		case "obj":
			stt := structOf(m.addr.T)
			for i := 0; i < stt.NumFields(); i++ {
				a := *m.addr
				a.Path = append(append([]int{}, a.Path...), i)
				a.T = stt.Field(i).Type()
				fc.havocAddr(st, &a)
			}
		case "elems":
			fc.havocElems(st, m.slice)
		case "map":
			fc.havocMap(st, m.slice, m.slice.T.Underlying().(*types.Map))
		case "ghost":
			g := fc.eng.ghosts[m.ghost]
			fc.storeLoc(st, loc{name: "GH$" + m.ghost, idx: []string{m.ref}, sort: g.Ret}, fc.sc.fresh("gh_"+m.ghost, g.Ret))
		}
	}
}

// keepPrefixes resolves the `allbut` tokens to heap-name prefixes.
func (fc *FnCtx) keepPrefixes(con *Contract) []string {
	return fc.keepPrefixesOf(con, con.ModAllBut)
}

func (fc *FnCtx) keepPrefixesOf(con *Contract, toks []string) []string {
	var out []string
	for _, tok := range toks {
		tok = strings.TrimSpace(tok)
		switch {
		case tok == "bytes":
			out = append(out, "M$uint8$")
		case fc.eng.ghosts[tok] != nil:
			if fc.eng.ghosts[tok].Volatile {
				unsup("volatile ghost field %s in a keep-list", tok)
			}
			out = append(out, "GH$"+tok)
		default:
			env := fc.specEnv(nil, nil, nil, con.Pkg, nil, "modifies allbut "+tok)
			e, err := parser.ParseExpr(tok)
			if err != nil {
				env.fail("%v", err)
			}
			t := env.resolveType(e)
			if t == nil {
				env.fail("unknown type %s", tok)
			}
			out = append(out, "H$"+typeName(t)+"$")
		}
	}
	return out
}

func (c *Contract) allocates() bool {
	for _, e := range c.Ensures {
		if strings.Contains(e.Text, "fresh(") {
			return true
		}
	}
	return false
}

func (fc *FnCtx) havocAddr(st *State, a *Addr) {
	if a.Alt != nil {
		unsup("havoc of a merged interior pointer")
	}
	if _, isArr := a.T.Underlying().(*types.Array); isArr {
		unsup("modifies on array-typed field")
	}
	v := fc.freshVal(st, a.T, "mod")
	fc.store(st, a, v)
}

func (fc *FnCtx) havocMap(st *State, m Val, mt *types.Map) {
	dom, vb, ks := fc.mapNames(mt)
	fc.storeLoc(st, loc{name: dom, idx: []string{m.S}, sort: "(Array " + ks + " Bool)"}, fc.sc.fresh("md", "(Array "+ks+" Bool)"))
	fc.storeLoc(st, loc{name: "ML$", idx: []string{m.S}, sort: "Int"}, fc.sc.fresh("ml", "Int"))
	walkVal(buildVal(mt.Elem(), "", func(suffix, sort string, t types.Type) string { return "" }), "", func(suffix, sort, term string, _ types.Type) {
		fc.storeLoc(st, loc{name: vb + suffix, idx: []string{m.S}, sort: "(Array " + ks + " " + sort + ")"}, fc.sc.fresh("mv", "(Array "+ks+" "+sort+")"))
	})
}

// ---------- loop invariants ----------

func (fc *FnCtx) invariantsFor(fr *Frame, li int) []*Clause {
	if fr.parent != nil {
		// loops inside inlined callees use the callee's own contract, if any
		if con := fc.eng.contracts[fr.fn.String()]; con != nil {
			return con.LoopInv[li]
		}
		return nil
	}
	if fc.con == nil {
		return nil
	}
	return fc.con.LoopInv[li]
}

func (fc *FnCtx) invEnv(fr *Frame, st *State, phiVals map[*ssa.Phi]Val, phis []*ssa.Phi, what string) *SpecEnv {
	vars := map[string]Val{}
	for k, v := range fc.paramVars(fr) {
		vars[k] = v
	}
	for _, p := range phis {
		if p.Comment != "" {
			vars[p.Comment] = phiVals[p]
		}
		if p.Comment == "rangeindex" {
			// `for i := range s`: in invariants i denotes the next index to visit
			// (= number of completed iterations): the hidden counter + 1
			if name := rangeIndexName(p); name != "" {
				pv := phiVals[p]
				vars[name] = intVal(pv.T, sx("+", pv.S, "1"))
			}
		}
	}
	pkg := fr.fn.Pkg.Pkg
	return fc.specEnv(st, fc.oldSt, vars, pkg, fr, what)
}

// capturedByRef: the i-th free variable of closure fn is the address of a
// variable of the enclosing function (go/ssa captures reassigned or addressed
// variables by reference).
func capturedByRef(fn *ssa.Function, i int) bool {
	p := fn.Parent()
	if p == nil {
		return false
	}
	for _, b := range p.Blocks {
		for _, ins := range b.Instrs {
			mc, ok := ins.(*ssa.MakeClosure)
			if !ok || mc.Fn != ssa.Value(fn) || i >= len(mc.Bindings) {
				continue
			}
			_, isAlloc := mc.Bindings[i].(*ssa.Alloc)
			return isAlloc
		}
	}
	return false
}

// rangeIndexName: the source name of the index variable of a range loop whose
// hidden counter is phi ("" if the index is not named).
func rangeIndexName(phi *ssa.Phi) string {
	for _, b := range phi.Parent().Blocks {
		for _, ins := range b.Instrs {
			d, ok := ins.(*ssa.DebugRef)
			if !ok || d.IsAddr {
				continue
			}
			id, ok := d.Expr.(*ast.Ident)
			if !ok {
				continue
			}
			if bo, ok := d.X.(*ssa.BinOp); ok && bo.Op == token.ADD && bo.X == ssa.Value(phi) {
				return id.Name
			}
		}
	}
	return ""
}

func (fc *FnCtx) paramVars(fr *Frame) map[string]Val {
	vars := map[string]Val{}
	for _, p := range fr.fn.Params {
		if v, ok := fr.vals[p]; ok {
			vars[p.Name()] = v
		}
	}
	for _, p := range fr.fn.FreeVars {
		if v, ok := fr.vals[p]; ok {
			vars[p.Name()] = v
		}
	}
	return vars
}

func (fc *FnCtx) checkInvariants(fr *Frame, h *ssa.BasicBlock, li int, st *State, reach string, phiVals map[*ssa.Phi]Val, where string, phis []*ssa.Phi) {
	for _, cl := range fc.invariantsFor(fr, li) {
		for _, part := range splitConj(cl.Expr) {
			env := fc.invEnv(fr, st, phiVals, phis, cl.Text)
			t := env.evalBool(part)
			fc.oblige(fr, "invariant-"+where, fmt.Sprintf("loop %d: %s", li, clauseName(cl)), reach, t, env.quant, nil)
		}
	}
	// entry clauses: facts about the state in which the loop is entered (never assumed)
	if where == "entry" && fr.parent == nil && fc.con != nil {
		for _, cl := range fc.con.LoopEntry[li] {
			for _, part := range splitConj(cl.Expr) {
				env := fc.invEnv(fr, st, phiVals, phis, cl.Text)
				fc.oblige(fr, "loop-entry", fmt.Sprintf("loop %d: %s", li, clauseName(cl)), reach, env.evalBool(part), env.quant, nil)
			}
		}
	}
	// step clauses: facts about one iteration, checked at the back edge with the
	// iteration's locals in scope (never assumed)
	if where == "back" {
		var steps []*Clause
		if fr.parent == nil && fc.con != nil {
			steps = fc.con.LoopStep[li]
		} else if con := fc.eng.contracts[fr.fn.String()]; con != nil && fr.parent != nil {
			steps = con.LoopStep[li]
		}
		for _, cl := range steps {
			env := fc.invEnv(fr, st, phiVals, phis, cl.Text)
			env.prev = fc.loopHead[h]
			// inside prev(...) the loop variables denote their values at the head
			if hp := fc.loopHeadPhis[h]; hp != nil {
				env.prevVars = fc.invEnv(fr, fc.loopHead[h], hp, phis, cl.Text).vars
			}
			t := env.evalBool(cl.Expr)
			fc.oblige(fr, "loop-step", fmt.Sprintf("loop %d: %s", li, clauseName(cl)), reach, t, env.quant, nil)
		}
	}
	// automatic candidates: the function's frame condition holds at the loop head
	if fr.parent == nil && fc.con != nil && fc.con.HasMod && !fc.con.ModAll && !fc.discovery && !fc.loopHavocAll[h] {
		for _, name := range fc.loopWriteNames(h) {
			key := fmt.Sprintf("%s/loop%d/frame/%s", fr.prefix, li, name)
			if fc.eng.droppedCand[fc.fn.String()][key] {
				continue
			}
			cond := fc.frameCond(st, name, fc.modTargets)
			if cond == "" {
				continue
			}
			o := fc.oblige(fr, "auto-invariant-"+where, fmt.Sprintf("loop %d: frame %s", li, name), reach, cond, true, nil)
			if o != nil {
				o.Candidate = true
				o.CandKey = key
			}
		}
	}
	// automatic candidates: monotone induction variables
	for _, p := range phis {
		for _, c := range fc.autoCandidates(fr, h, p) {
			key := fmt.Sprintf("%s/loop%d/%s/%s", fr.prefix, li, p.Comment, c.key)
			if fc.eng.droppedCand[fc.fn.String()][key] {
				continue
			}
			t := c.term(fc, fr, st, phiVals[p])
			if t == "" {
				continue
			}
			o := fc.oblige(fr, "auto-invariant-"+where, fmt.Sprintf("loop %d: %s %s", li, p.Comment, c.key), reach, t, false, nil)
			if o != nil {
				o.Candidate = true
				o.CandKey = key
			}
		}
	}
}

func (fc *FnCtx) assumeInvariants(fr *Frame, h *ssa.BasicBlock, li int, st *State, reach string, cur, entry map[*ssa.Phi]Val, phis []*ssa.Phi) {
	for _, cl := range fc.invariantsFor(fr, li) {
		env := fc.invEnv(fr, st, cur, phis, cl.Text)
		fc.sc.assume(tImp(reach, env.evalBool(cl.Expr)))
	}
	if fr.parent == nil && fc.con != nil && fc.con.HasMod && !fc.con.ModAll && !fc.discovery && !fc.loopHavocAll[h] {
		for _, name := range fc.loopWriteNames(h) {
			key := fmt.Sprintf("%s/loop%d/frame/%s", fr.prefix, li, name)
			if fc.eng.droppedCand[fc.fn.String()][key] {
				continue
			}
			if cond := fc.frameCond(st, name, fc.modTargets); cond != "" {
				fc.sc.assume(tImp(reach, cond))
			}
		}
	}
	for _, p := range phis {
		for _, c := range fc.autoCandidates(fr, h, p) {
			key := fmt.Sprintf("%s/loop%d/%s/%s", fr.prefix, li, p.Comment, c.key)
			if fc.eng.droppedCand[fc.fn.String()][key] {
				continue
			}
			if t := c.term(fc, fr, st, cur[p]); t != "" {
				fc.sc.assume(tImp(reach, t))
			}
		}
	}
}

func (fc *FnCtx) loopWriteNames(h *ssa.BasicBlock) []string {
	var ns []string
	for n := range fc.loopWrites[h] {
		ns = append(ns, n)
	}
	sort.Strings(ns)
	return ns
}

type autoCand struct {
	key  string
	term func(fc *FnCtx, fr *Frame, st *State, phi Val) string
}

// autoCandidates proposes `init <= i` (or >=) for i = phi(init, i ± c) and
// `i <= bound` when the loop guard is i < bound with a loop-invariant bound.
func (fc *FnCtx) autoCandidates(fr *Frame, h *ssa.BasicBlock, p *ssa.Phi) []autoCand {
	if kindOf(p.Type()) != KInt {
		return nil
	}
	if _, _, ok := intRange(p.Type()); !ok {
		return nil
	}
	var out []autoCand
	body := loopBlocks(h)
	var init ssa.Value
	step := 0
	for i, e := range p.Edges {
		pred := h.Preds[i]
		if !body[pred] || !isBackEdge(pred, h) {
			if init != nil && init != e {
				return nil
			}
			init = e
			continue
		}
		// back edge value must be p ± const
		bo, ok := e.(*ssa.BinOp)
		if !ok {
			return nil
		}
		c, ok := bo.Y.(*ssa.Const)
		if !ok || bo.X != ssa.Value(p) || c.Value == nil {
			return nil
		}
		k := c.Int64()
		s := 0
		switch {
		case bo.Op.String() == "+" && k > 0, bo.Op.String() == "-" && k < 0:
			s = 1
		case bo.Op.String() == "-" && k > 0, bo.Op.String() == "+" && k < 0:
			s = -1
		default:
			return nil
		}
		if step != 0 && step != s {
			return nil
		}
		step = s
	}
	if init == nil || step == 0 {
		return nil
	}
	initV := init
	// upper/lower bounds from loop guards: phi (or phi±c) compared with a loop-invariant value
	if step > 0 {
		seenB := map[ssa.Value]bool{}
		for blk := range body {
			for _, ins := range blk.Instrs {
				iff, ok := ins.(*ssa.If)
				if !ok {
					continue
				}
				bo, ok := iff.Cond.(*ssa.BinOp)
				if !ok || (bo.Op.String() != "<" && bo.Op.String() != "<=") {
					continue
				}
				x := bo.X
				if xb, ok := x.(*ssa.BinOp); ok && xb.X == ssa.Value(p) {
					if _, isC := xb.Y.(*ssa.Const); isC {
						x = xb.X
					}
				}
				if x != ssa.Value(p) {
					continue
				}
				bnd := bo.Y
				if bi, ok := bnd.(ssa.Instruction); ok && body[bi.Block()] {
					continue
				}
				if seenB[bnd] {
					continue
				}
				seenB[bnd] = true
				bv := bnd
				for _, strict := range []bool{true, false} {
					strict := strict
					key := "below-guard"
					if !strict {
						key = "at-most-guard"
					}
					out = append(out, autoCand{key + "(" + bv.Name() + ")", func(fc *FnCtx, fr *Frame, st *State, phi Val) string {
						iv, ok1 := fc.tryValue(fr, st, initV)
						b, ok2 := fc.tryValue(fr, st, bv)
						if !ok1 || !ok2 || b.K != KInt {
							return ""
						}
						op := "<="
						if strict {
							op = "<"
						}
						return tOr(sx("<=", phi.S, iv.S), sx(op, phi.S, b.S))
					}})
				}
			}
		}
	}
	if step > 0 {
		out = append(out, autoCand{"lower-bound", func(fc *FnCtx, fr *Frame, st *State, phi Val) string {
			iv, ok := fc.tryValue(fr, st, initV)
			if !ok {
				return ""
			}
			return sx("<=", iv.S, phi.S)
		}})
	} else {
		out = append(out, autoCand{"upper-bound", func(fc *FnCtx, fr *Frame, st *State, phi Val) string {
			iv, ok := fc.tryValue(fr, st, initV)
			if !ok {
				return ""
			}
			return sx(">=", iv.S, phi.S)
		}})
	}
	return out
}

func (fc *FnCtx) tryValue(fr *Frame, st *State, v ssa.Value) (val Val, ok bool) {
	defer func() {
		if r := recover(); r != nil {
			if _, isU := r.(unsupported); isU {
				ok = false
				return
			}
			panic(r)
		}
	}()
	return fc.value(fr, st, v), true
}

// ---------- top-level verification of one function ----------

func (fc *FnCtx) verify() {
	fn := fc.fn
	con := fc.con
	ep0 := &epoch{id: 0}
	fc.ep0 = ep0
	st := newState(ep0)
	fr := &Frame{fn: fn, vals: map[ssa.Value]Val{}, prefix: shortFnName(fn), names: map[string]ssa.Value{}}
	if fc.prefixOverride != "" {
		fr.prefix = fc.prefixOverride
	}
	var args []Val
	var outerVal Val
	for i, p := range fn.Params {
		v := fc.freshVal(st, p.Type(), "p_"+p.Name())
		if i == 0 && fc.conformOuter != nil && fn.Signature.Recv() != nil {
			// the receiver is the embedded struct INSIDE an object of the implementing type
			outerVal = fc.freshVal(st, types.NewPointer(fc.conformOuter), "p_outer")
			fc.sc.assume(tNot(tEq(outerVal.A.Base, "0")))
			fc.nonNil[outerVal.A.Base] = true
			a := *outerVal.A
			a.Path = append([]int{}, fc.conformOuterPath...)
			a.T = p.Type().Underlying().(*types.Pointer).Elem()
			v = Val{K: KAddr, T: p.Type(), A: &a}
			fc.assumeStructInv(st, outerVal) // the implementing object carries its structure invariants
		}
		fr.vals[p] = v
		args = append(args, v)
		if v.K == KAddr && v.A.Kind == AObj && (con == nil || !con.nilable(p.Name(), i == 0 && fn.Signature.Recv() != nil)) {
			fc.sc.assume(tNot(tEq(v.A.Base, "0")))
			fc.nonNil[v.A.Base] = true
			fc.assumption("A-NONNIL: pointer-to-struct parameters (incl. receivers) are non-nil unless declared `nilable`; call sites under contract check it")
		}
		fc.watchVal(v)
	}
	for _, a := range args {
		fc.assumeStructInv(st, a)
	}
	vars := bindParams(con, fn, args)
	if fc.conformIface && len(args) > 0 && con.Decl != nil && con.Decl.Recv != nil {
		// `self` of the interface contract is the receiver seen through the interface
		self := args[0]
		if outerVal.K == KAddr {
			self = outerVal
		}
		if self.K != KIface {
			if it := fc.eng.ifaceTypeOf(con); it != nil {
				self = fc.makeIface(st, self, it)
			}
		}
		for _, f := range con.Decl.Recv.List {
			for _, n := range f.Names {
				vars[n.Name] = self
			}
		}
	}
	// closures verified standalone: captured variables are arbitrary and can be named in the contract
	for i, fv := range fn.FreeVars {
		v := fc.value(fr, st, fv)
		if v.K == KAddr && v.A.Kind == ACell {
			vars[fv.Name()] = st.cells[v.A.Cell]
		} else if v.K == KAddr && capturedByRef(fn, i) {
			// the closure holds the address of the variable: the name denotes its value
			vars[fv.Name()] = fc.load(st, v.A)
		} else {
			vars[fv.Name()] = v
		}
	}
	fc.params = vars
	fc.replayPlan(st, fn, args)
	if con != nil {
		for _, cl := range con.Requires {
			env := fc.specEnv(st, nil, vars, con.Pkg, fr, cl.Text)
			env.assumeLocks = true
			fc.sc.assume(env.evalBool(cl.Expr))
		}
		if con.HasMod && !con.ModAll {
			fc.modTargets, fc.modDeferred = fc.evalModifiesD(st, con, con.Modifies, vars, true)
		}
		// tokens the caller hands over are held at entry
		fc.produce(st, con, vars, con.Consumes)
	}
	// vacuity guard: the precondition must be satisfiable
	cov := fc.oblige(fr, "cover", "precondition satisfiable", "true", "true", false, nil)
	cov.Cover = true
	fc.oldSt = st.clone()
	pre := fc.oldSt
	var res Val
	retReach := "true"
	if fc.conformImpl != nil {
		// the "body" is one call of the implementation by its own contract
		res = fc.callByContract(fr, st, "true", fc.conformImpl, fn, args, nil)
	} else {
		res, retReach = fc.execBody(fr, st, "true")
	}
	fc.checkStructInvEstablished(fr, st, res, retReach)
	if con == nil {
		return
	}
	bindResults(con, fn.Signature, res, vars)
	nd0 := len(fc.ghostDefTargets)
	defer func() { _ = nd0 }()
	for _, cl := range con.Defines {
		env := fc.specEnv(st, pre, vars, con.Pkg, fr, cl.Text)
		fc.assumption("defines clause (ghost definition, assumed at its definition site): " + shortFnName(fn) + ": " + cl.Text)
		// a ghost FIELD mentioned outside old() is assigned here: forget its current value first
		fc.ghostAssignTargets(env, cl.Expr)
		fc.sc.assume(tImp(retReach, env.evalBool(cl.Expr)))
	}
	// the ghost cells this function's own `defines` clauses assign are exempt from its keep-list check
	fc.ownDefTargets = append([]modTarget{}, fc.ghostDefTargets[nd0:]...)
	for _, cl := range con.Ensures {
		for _, part := range splitConj(cl.Expr) {
			env := fc.specEnv(st, pre, vars, con.Pkg, fr, cl.Text)
			t := env.evalBool(part)
			o := fc.oblige(fr, "ensures", clauseName(cl), retReach, t, env.quant, nil)
			if o != nil && cl.Top {
				o.Kind = "ensures-top"
			}
		}
	}
	if con.HasMod && !con.ModAll {
		fc.frameCheck(fr, st, pre, con, vars, retReach)
	}
	if (con.ModAll && len(con.ModAllBut) > 0) || len(con.AlsoKeep) > 0 {
		// everything with a kept prefix must be unchanged for objects allocated at entry
		var keep []string
		if con.ModAll {
			keep = fc.keepPrefixes(con)
		}
		keep = append(keep, fc.keepPrefixesOf(con, con.AlsoKeep)...)
		// names under a kept prefix that this function never mentions change only
		// through whole-heap havocs (callees with `modifies all/allbut`, unmodelled
		// calls): every such havoc on a reachable path must itself keep the prefix
		for _, kp := range keep {
			if t := fc.epochKept(st.ep, kp); t != "true" {
				fc.oblige(fr, "frame", "allbut: "+kp+"* survives every whole-heap havoc (callee keep-lists)", retReach, t, false, nil)
			}
		}
		names := make([]string, 0, len(fc.sorts))
		for n := range fc.sorts {
			names = append(names, n)
		}
		sort.Strings(names)
		for _, name := range names {
			kept := false
			for _, p := range keep {
				if strings.HasPrefix(name, p) {
					kept = true
				}
			}
			if !kept || fc.volatileNames[name] || fc.isVolatileGhost(name) {
				continue
			}
			if cond := fc.frameCond(st, name, fc.ownDefTargets); cond != "" {
				fc.oblige(fr, "frame", "allbut: "+name, retReach, cond, true, nil)
			}
		}
	}
}

// epochKept: the condition under which every heap name with the given prefix
// has been inherited unchanged from the function's entry epoch by epoch e.
func (fc *FnCtx) epochKept(e *epoch, prefix string) string {
	if e == fc.ep0 {
		return "true"
	}
	if e.l != nil {
		l, r := fc.epochKept(e.l, prefix), fc.epochKept(e.r, prefix)
		if l == r {
			return l
		}
		return tIte(e.cond, l, r)
	}
	if e.parent != nil {
		for _, p := range e.keep {
			if strings.HasPrefix(prefix, p) {
				return fc.epochKept(e.parent, prefix)
			}
		}
	}
	return "false"
}

func shortFnName(fn *ssa.Function) string {
	pkg := ""
	if fn.Pkg != nil {
		pkg = fn.Pkg.Pkg.Name() + "."
	}
	s := fn.Name()
	if r := fn.Signature.Recv(); r != nil {
		t := r.Type()
		star := ""
		if p, ok := t.(*types.Pointer); ok {
			t = p.Elem()
			star = "*"
		}
		if n, ok := t.(*types.Named); ok {
			s = "(" + star + n.Obj().Name() + ")." + s
		}
	} else if fn.Parent() != nil {
		s = shortFnName(fn.Parent()) + "$" + strings.TrimPrefix(fn.Name(), fn.Parent().Name()+"$")
		return s
	}
	return pkg + s
}

func (fc *FnCtx) watchVal(v Val) {
	walkVal(v, "", func(suffix, sort, term string, t types.Type) {
		if sort == "Int" || sort == "Bool" || sort == "String" {
			if !strings.HasPrefix(term, "(") {
				fc.watch = append(fc.watch, term)
			}
		}
	})
}

// frameCheck: everything not named in `modifies` is unchanged for objects
// allocated at entry.
func (fc *FnCtx) frameCheck(fr *Frame, st, pre *State, con *Contract, vars map[string]Val, reach string) {
	if fc.havocAllSeen {
		fc.oblige(fr, "frame", "function havocs the heap (unmodelled callee) but declares a modifies clause", reach, "false", false, nil)
		return
	}
	targets := fc.modTargets
	if len(fc.modDeferred) > 0 {
		t2, _ := fc.evalModifiesD(st, con, fc.modDeferred, vars, false)
		targets = append(append([]modTarget{}, targets...), t2...)
	}
	names := make([]string, 0, len(fc.writtenNames))
	for n := range fc.writtenNames {
		names = append(names, n)
	}
	sort.Strings(names)
	for _, name := range names {
		if name == "GH$sendtries" && !mentionsSendTries(con) {
			continue
		}
		if fc.isVolatileGhost(name) {
			continue // not covered by frames: forgotten by every caller at every call
		}
		if fc.volatileNames[name] {
			fc.assumption("A-MON-FRAME: the frame condition does not cover " + name + " (guarded by a monitor this function acquires: other threads may write it; its writes are governed by the monitor's invariant/history)")
			continue
		}
		cond := fc.frameCond(st, name, targets)
		if cond == "" {
			continue
		}
		fc.oblige(fr, "frame", name, reach, cond, true, nil)
	}
}

// frameCond: the condition that heap name is unchanged since entry outside
// the modifies targets, for objects allocated at entry ("" if trivially so).
func (fc *FnCtx) frameCond(st *State, name string, targets []modTarget) string {
	alloc0 := fc.epochTerm(fc.ep0, "Alloc", "(Array Int Bool)")
	{
		{
			if name == "Alloc" || strings.HasPrefix(name, "B$") {
				return ""
			}
			srt := fc.sorts[name]
			if srt == "" {
				return ""
			}
			cur := fc.heapTerm(st, name, srt)
			old := fc.epochTerm(fc.ep0, name, srt)
			if cur == old {
				return ""
			}
			var cond string
			switch {
			case strings.HasPrefix(name, "G$"):
				allowed := false
				for _, t := range targets {
					if t.kind == "field" && t.addr.Kind == AGlobal {
						b, _ := fc.addrBase(t.addr)
						if strings.HasPrefix(name, b) {
							allowed = true
						}
					}
				}
				if allowed {
					return ""
				}
				cond = tEq(cur, old)
			case strings.HasPrefix(name, "H$"):
				var ex []string
				for _, t := range targets {
					if t.addr == nil || t.addr.Kind != AObj {
						continue
					}
					b, _ := fc.addrBase(t.addr)
					match := false
					switch t.kind {
					case "field":
						match = name == b || strings.HasPrefix(name, b+".")
					case "obj":
						match = name == b || strings.HasPrefix(name, b)
					}
					if match {
						ex = append(ex, tEq("r", t.addr.Base))
					}
				}
				cond = "(forall ((r Int)) (=> (and (select " + alloc0 + " r) " + tNot(tOr(ex...)) + ") (= (select " + cur + " r) (select " + old + " r))))"
			case strings.HasPrefix(name, "BX$"):
				var ex []string
				for _, t := range targets {
					if t.addr == nil || t.addr.Kind != AOpaque || t.kind != "field" {
						continue
					}
					b, _ := fc.addrBase(t.addr)
					if name == b || strings.HasPrefix(name, b) {
						ex = append(ex, tEq("r", t.addr.Base))
					}
				}
				cond = "(forall ((r Int)) (=> (and (select " + alloc0 + " r) " + tNot(tOr(ex...)) + ") (= (select " + cur + " r) (select " + old + " r))))"
			case strings.HasPrefix(name, "GH$"):
				var ex []string
				for _, t := range targets {
					if t.kind == "ghost" && "GH$"+t.ghost == name {
						ex = append(ex, tEq("r", t.ref))
					}
				}
				cond = "(forall ((r Int)) (=> (and (select " + alloc0 + " r) " + tNot(tOr(ex...)) + ") (= (select " + cur + " r) (select " + old + " r))))"
			case strings.HasPrefix(name, "M$"):
				var ex []string
				var inner []string
				var sl []Val
				for _, t := range targets {
					if t.kind != "elems" {
						continue
					}
					et := t.slice.T.Underlying().(*types.Slice).Elem()
					b, _ := fc.addrBase(&Addr{Kind: AElem, Base: t.slice.Arr, Idx: "0", ElemT: et, T: et})
					if name == b || strings.HasPrefix(name, b+".") || strings.HasPrefix(name, b) && strings.HasSuffix(b, "$") {
						sl = append(sl, t.slice)
					}
				}
				for _, a := range sl {
					ex = append(ex, tEq("r", a.Arr))
					// j is outside every declared range that lives in the same array
					var outs []string
					for _, b := range sl {
						out := "(or (< j " + b.Off + ") (>= j " + tAdd(b.Off, b.Len) + "))"
						outs = append(outs, tImp(tEq(b.Arr, a.Arr), out))
					}
					inner = append(inner, "(forall ((j Int)) (=> "+tAnd(outs...)+" (= (select (select "+cur+" "+a.Arr+") j) (select (select "+old+" "+a.Arr+") j))))")
				}
				cond = tAnd(append([]string{"(forall ((r Int)) (=> (and (select " + alloc0 + " r) " + tNot(tOr(ex...)) + ") (= (select " + cur + " r) (select " + old + " r))))"}, inner...)...)
			case strings.HasPrefix(name, "MD$"), strings.HasPrefix(name, "MV$"), name == "ML$":
				// maps reachable from a modified map-valued field may change
				var ex []string
				for _, t := range targets {
					if t.kind == "map" {
						ex = append(ex, tEq("r", t.ref))
					}
				}
				cond = "(forall ((r Int)) (=> (and (select " + alloc0 + " r) " + tNot(tOr(ex...)) + ") (= (select " + cur + " r) (select " + old + " r))))"
			default:
				return ""
			}
			return cond
		}
	}
}

// ghostAssignTargets havocs the ghost-field cells a defines clause talks about
// (occurrences outside old()), so that the clause acts as an assignment.
func (fc *FnCtx) ghostAssignTargets(env *SpecEnv, sp Spec) {
	var walkE func(e ast.Expr)
	walkE = func(e ast.Expr) {
		ast.Inspect(e, func(n ast.Node) bool {
			ce, ok := n.(*ast.CallExpr)
			if !ok {
				return true
			}
			id, ok := ce.Fun.(*ast.Ident)
			if !ok {
				return true
			}
			if id.Name == "old" {
				return false
			}
			if g := fc.eng.ghosts[id.Name]; g != nil && g.Field && len(ce.Args) == 1 {
				ref := refOf(env.expr(ce.Args[0]))
				fc.storeLoc(env.st, loc{name: "GH$" + g.Name, idx: []string{ref}, sort: g.Ret}, fc.sc.fresh("gdef_"+g.Name, g.Ret))
				fc.ghostDefTargets = append(fc.ghostDefTargets, modTarget{kind: "ghost", ghost: g.Name, ref: ref, text: "defines " + g.Name})
			}
			return true
		})
	}
	var walk func(s Spec)
	walk = func(s Spec) {
		switch t := s.(type) {
		case *SImp:
			walk(t.L)
			walk(t.R)
		case *SIff:
			walk(t.L)
			walk(t.R)
		case *SAnd:
			walk(t.L)
			walk(t.R)
		case *SOr:
			walk(t.L)
			walk(t.R)
		case *SNot:
			walk(t.X)
		case *SQuant:
			// ghost cells indexed by bound variables cannot be assigned pointwise
		case *SGo:
			walkE(t.E)
		}
	}
	walk(sp)
}

// assumeStructInv: facts about constructor-only fields hold for every object
// that was not allocated by the current function.
func (fc *FnCtx) assumeStructInv(st *State, v Val) {
	if v.K != KAddr || v.A.Kind != AObj || len(v.A.Path) != 0 || fc.freshObj[v.A.Base] {
		return
	}
	for _, si := range fc.eng.structInvs {
		if !types.Identical(v.A.T, si.rootType) {
			continue
		}
		key := si.TypeName + "@" + v.A.Base + "@" + si.Clause.Text + fmt.Sprintf("@ep%v", st.ep)
		// fields whose value may change (verified writers) are re-assumed after every havoc
		pre := "H$" + typeName(si.rootType) + "$"
		for _, n := range sortedKeys(st.heap) {
			if strings.HasPrefix(n, pre) {
				if hit := si.touches(strings.TrimPrefix(n, pre)); hit != "" && !si.stable[hit] {
					key += "|" + st.heap[n]
				}
			}
		}
		if fc.structAssumed[key] {
			continue
		}
		fc.structAssumed[key] = true
		for _, f := range append(append([]string{}, si.Established...), si.Helpers...) {
			if fc.fn.Name() == f || (fc.fn.Parent() != nil && fc.fn.Parent().Name() == f) {
				return // still under construction here
			}
		}
		fc.assumption("structinv: constructor-only fields of " + si.TypeName + " (checked: written only in " + strings.Join(si.Established, ", ") + "; proved at their exit)")
		fc.quiet++
		env := fc.specEnv(st, nil, map[string]Val{si.Self: v}, si.Pkg, nil, "structinv "+si.TypeName)
		t := env.evalBool(si.Clause.Expr)
		fc.quiet--
		fc.sc.assume(tImp(tNot(tEq(v.A.Base, "0")), t))
	}
}

// structInvStore: a store to a struct-invariant field outside the establishing
// functions must re-establish the invariant of that object at once.
func (fc *FnCtx) structInvStore(fr *Frame, st *State, reach string, a *Addr, ins *ssa.Store) {
	if a.Kind != AObj || len(a.Path) == 0 || a.Alt != nil {
		return
	}
	if structOf(a.Root) == nil {
		return
	}
	fname, _ := pathName(a.Root, a.Path)
	fn := ins.Parent()
	for fn.Parent() != nil {
		fn = fn.Parent()
	}
	for _, si := range fc.eng.structInvs {
		if !types.Identical(a.Root, si.rootType) || si.touches(fname) == "" {
			continue
		}
		listed := false
		for _, f := range append(append([]string{}, si.Established...), si.Helpers...) {
			if fn.Name() == f {
				listed = true
			}
		}
		if listed {
			continue
		}
		self := Val{K: KAddr, T: types.NewPointer(si.rootType), A: &Addr{Kind: AObj, Base: a.Base, Root: si.rootType, T: si.rootType}}
		fc.quiet++
		env := fc.specEnv(st, nil, map[string]Val{si.Self: self}, si.Pkg, nil, "structinv "+si.TypeName)
		t := env.evalBool(si.Clause.Expr)
		fc.quiet--
		fc.oblige(fr, "structinv", si.TypeName+" preserved by the store to "+fname, reach, t, env.quant, nil)
	}
}

// checkStructInvEstablished: an establishing function that returns a *T must
// return it with the struct invariant holding.
func (fc *FnCtx) checkStructInvEstablished(fr *Frame, st *State, res Val, reach string) {
	if fr.parent != nil || fc.fn.Parent() != nil {
		return
	}
	var rs []Val
	if res.K == KTuple {
		rs = res.Fs
	} else {
		rs = []Val{res}
	}
	for _, si := range fc.eng.structInvs {
		est := false
		for _, f := range si.Established {
			if fc.fn.Name() == f && fc.fn.Pkg != nil && fc.fn.Pkg.Pkg == si.Pkg {
				est = true
			}
		}
		if !est {
			continue
		}
		// every object of the type allocated during this call (directly or in an
		// inlined helper) leaves the function with the invariant established
		seen := map[string]bool{}
		for _, r := range rs {
			if r.K == KAddr && r.A.Kind == AObj {
				seen[r.A.Base] = true
			}
		}
		var bases []string
		for b, t := range fc.freshT {
			if types.Identical(t, si.rootType) && !seen[b] {
				bases = append(bases, b)
			}
		}
		sort.Strings(bases)
		for _, b := range bases {
			rs = append(rs, Val{K: KAddr, T: types.NewPointer(si.rootType), A: &Addr{Kind: AObj, Base: b, Root: si.rootType, T: si.rootType}})
		}
		for _, r := range rs {
			if r.K == KAddr && r.A.Kind == AObj && types.Identical(r.A.T, si.rootType) {
				env := fc.specEnv(st, nil, map[string]Val{si.Self: r}, si.Pkg, nil, "structinv "+si.TypeName)
				for _, part := range splitConj(si.Clause.Expr) {
					t := env.evalBool(part)
					guard := tAnd(tNot(tEq(r.A.Base, "0")), tSel(fc.alloc(st), r.A.Base))
					if fr2, ok := fc.freshReach[r.A.Base]; ok && fr2 != "" {
						// an object allocated in this call: only on the paths that allocated it
						guard = tAnd(guard, fr2)
					}
					fc.oblige(fr, "structinv", si.TypeName+" established: "+si.Clause.Text, reach, tImp(guard, t), env.quant, nil)
				}
			}
		}
	}
}
