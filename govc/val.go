package main

// Symbolic values. Every Go value is a small tree of scalar SMT terms
// (Int / Bool / String / arrays thereof); no SMT datatypes are used.

import (
	"fmt"
	"go/types"
	"math/big"
	"strings"

	"golang.org/x/tools/go/ssa"
)

type Kind int

const (
	KInt    Kind = iota // integers, root refs of maps/chans/funcs, unsafe pointers
	KBool               //
	KStr                // SMT String
	KSlice              // (Arr, Off, Len, Cap)
	KIface              // (Tag, S=payload)
	KStruct             // Fs
	KTuple              // Fs
	KAddr               // pointer (to struct object, field, element, local cell, global)
	KArray              // fixed-size array value: S is an SMT array term (Array Int <leaf>) -- only for scalar elems
	KFunc               // function value: Fn known statically or opaque (S = id term)
	KFloat              // opaque
)

type AddrKind int

const (
	AObj    AddrKind = iota // struct object or (with Path) a field inside it
	AElem                   // slice element: Base = array id, Idx = absolute index
	ACell                   // local cell
	AGlobal                 // package-level variable (with Path inside it)
	AOpaque                 // unknown pointer (havoc on load, ignored store) -- S holds an id term
)

type Addr struct {
	Kind   AddrKind
	Base   string     // AObj: ref term; AElem: array id term
	Root   types.Type // AObj: the (named) struct type the ref denotes; AGlobal: type of the global
	Path   []int      // struct field path below Root
	Idx    string     // AElem: absolute index; AObj/AGlobal with array step: index term (at position IdxAt in path)
	IdxAt  int        // number of Path steps before the array index step (valid if Idx != "" for AObj/AGlobal)
	ElemT  types.Type // AElem: element type
	Cell   int
	Global *ssa.Global
	T      types.Type // type of the pointee
	// Alt != nil: this address is `if AltCond then <the fields above> else *Alt`
	// (a pointer merged from interior pointers with different field paths)
	Alt     *Addr
	AltCond string
}

type Val struct {
	K    Kind
	T    types.Type
	S    string
	Tag  string
	Arr  string
	Off  string
	Len  string
	Cap  string
	Fs   []Val
	A    *Addr
	Fn   *ssa.Function
	Bind []Val
	Orig string // KFunc loaded from a struct field: "pkg.Type.field"
}

func intVal(t types.Type, s string) Val { return Val{K: KInt, T: t, S: s} }
func boolVal(s string) Val              { return Val{K: KBool, T: types.Typ[types.Bool], S: s} }
func strVal(t types.Type, s string) Val { return Val{K: KStr, T: t, S: s} }

func kindOf(t types.Type) Kind {
	switch u := t.Underlying().(type) {
	case *types.Basic:
		switch {
		case u.Info()&types.IsBoolean != 0:
			return KBool
		case u.Info()&types.IsString != 0:
			return KStr
		case u.Info()&types.IsFloat != 0, u.Info()&types.IsComplex != 0:
			return KFloat
		case u.Kind() == types.UntypedNil:
			return KInt
		}
		return KInt
	case *types.Slice:
		return KSlice
	case *types.Interface:
		return KIface
	case *types.Struct:
		return KStruct
	case *types.Tuple:
		return KTuple
	case *types.Pointer:
		return KAddr
	case *types.Array:
		return KArray
	case *types.Signature:
		return KFunc
	case *types.Map, *types.Chan:
		return KInt
	}
	return KInt
}

// intRange returns the value range of an integer type (64-bit int/uint/uintptr).
func intRange(t types.Type) (lo, hi *big.Int, ok bool) {
	b, isB := t.Underlying().(*types.Basic)
	if !isB || b.Info()&types.IsInteger == 0 {
		return nil, nil, false
	}
	bits := 64
	signed := b.Info()&types.IsUnsigned == 0
	switch b.Kind() {
	case types.Int8, types.Uint8:
		bits = 8
	case types.Int16, types.Uint16:
		bits = 16
	case types.Int32, types.Uint32:
		bits = 32
	}
	one := big.NewInt(1)
	if signed {
		h := new(big.Int).Lsh(one, uint(bits-1))
		return new(big.Int).Neg(h), new(big.Int).Sub(h, one), true
	}
	return big.NewInt(0), new(big.Int).Sub(new(big.Int).Lsh(one, uint(bits)), one), true
}

func wrapTerm(t types.Type, x string) string {
	b, isB := t.Underlying().(*types.Basic)
	if !isB || b.Info()&types.IsInteger == 0 {
		return x
	}
	lo, hi, _ := intRange(t)
	if lo.Sign() == 0 {
		m := new(big.Int).Add(hi, big.NewInt(1))
		return sx("wrapu", x, m.String())
	}
	h := new(big.Int).Add(hi, big.NewInt(1))
	return sx("wraps", x, h.String())
}

func rangeTerm(t types.Type, x string) string {
	lo, hi, ok := intRange(t)
	if !ok {
		return "true"
	}
	return sx("inr", x, bigNum(lo), bigNum(hi))
}

// leaf describes one scalar component of a flattened type.
type leaf struct {
	suffix string // e.g. "", ".arr", ".f.len"
	sort   string // SMT sort of the scalar
	t      types.Type
}

// typeName gives a stable short name for heap array naming.
func typeName(t types.Type) string {
	if b, ok := t.(*types.Basic); ok {
		switch b.Kind() {
		case types.Uint8:
			return "uint8"
		case types.Int32:
			return "int32"
		}
	}
	s := types.TypeString(t, func(p *types.Package) string {
		path := p.Path()
		path = strings.TrimPrefix(path, "github.com/uber/tchannel-go")
		if path == "" {
			return "tchannel"
		}
		return strings.TrimPrefix(path, "/")
	})
	return sanitize(s)
}

func sortOfKind(k Kind) string {
	switch k {
	case KBool:
		return "Bool"
	case KStr:
		return "String"
	}
	return "Int"
}

func structOf(t types.Type) *types.Struct {
	if p, ok := t.Underlying().(*types.Pointer); ok {
		t = p.Elem()
	}
	s, _ := t.Underlying().(*types.Struct)
	return s
}

func fieldPathName(root types.Type, path []int) (string, types.Type) {
	t := root
	var parts []string
	for _, i := range path {
		st := structOf(t)
		if st == nil {
			panic(fmt.Sprintf("fieldPathName: not a struct: %v", t))
		}
		f := st.Field(i)
		parts = append(parts, f.Name())
		t = f.Type()
	}
	return strings.Join(parts, "."), t
}

func isNilConst(v ssa.Value) bool {
	c, ok := v.(*ssa.Const)
	return ok && c.Value == nil
}
