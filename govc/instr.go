package main

import (
	"fmt"
	"go/ast"
	"go/constant"
	"go/token"
	"go/types"
	"math/big"
	"strings"

	"golang.org/x/tools/go/ssa"
)

// value returns the symbolic value of an SSA value in frame fr.
func (fc *FnCtx) value(fr *Frame, st *State, v ssa.Value) Val {
	if x, ok := fr.vals[v]; ok {
		return x
	}
	switch t := v.(type) {
	case *ssa.Const:
		return fc.constVal(t)
	case *ssa.Global:
		return Val{K: KAddr, T: t.Type(), A: &Addr{Kind: AGlobal, Global: t, Root: t.Type().(*types.Pointer).Elem(), T: t.Type().(*types.Pointer).Elem()}}
	case *ssa.Function:
		return Val{K: KFunc, T: t.Type(), Fn: t}
	case *ssa.Builtin:
		return Val{K: KFunc, T: t.Type()}
	case *ssa.FreeVar:
		// closure verified standalone: free variables are arbitrary
		nv := fc.freeVarVal(fr, st, t)
		fr.vals[v] = nv
		return nv
	}
	unsup("value not defined: %s (%T) in %s", v.Name(), v, fr.fn)
	return Val{}
}

func (fc *FnCtx) freeVarVal(fr *Frame, st *State, fv *ssa.FreeVar) Val {
	// a free variable is a pointer to the captured variable (or a value)
	if pt, ok := fv.Type().Underlying().(*types.Pointer); ok && structOf(pt.Elem()) == nil {
		c := fc.newCell(fr, "fv_"+fv.Name(), pt.Elem())
		st.cells[c] = fc.freshVal(st, pt.Elem(), "fv_"+fv.Name())
		return Val{K: KAddr, T: fv.Type(), A: &Addr{Kind: ACell, Cell: c, T: pt.Elem()}}
	}
	return fc.freshVal(st, fv.Type(), "fv_"+fv.Name())
}

func (fc *FnCtx) newCell(fr *Frame, name string, t types.Type) int {
	key := fr.prefix + "/" + name
	fc.cellSeq[key]++
	key = fmt.Sprintf("%s#%d", key, fc.cellSeq[key])
	if id, ok := fc.cellOf[key]; ok {
		return id
	}
	fc.nCell++
	fc.cellOf[key] = fc.nCell
	fc.cellType[fc.nCell] = t
	return fc.nCell
}

func (fc *FnCtx) constVal(c *ssa.Const) Val {
	t := c.Type()
	if c.Value == nil {
		z := zeroVal(t)
		return z
	}
	switch kindOf(t) {
	case KBool:
		if constant.BoolVal(c.Value) {
			return boolVal("true")
		}
		return boolVal("false")
	case KStr:
		return strVal(t, smtString(constant.StringVal(c.Value)))
	case KInt:
		if c.Value.Kind() == constant.Int {
			if i, ok := constant.Int64Val(c.Value); ok {
				return intVal(t, num(i))
			}
			b, _ := new(big.Int).SetString(c.Value.ExactString(), 10)
			return intVal(t, bigNum(b))
		}
	case KFloat:
		return Val{K: KFloat, T: t, S: "0"}
	}
	unsup("constant %s of type %s", c, t)
	return Val{}
}

func (fc *FnCtx) nilCheck(fr *Frame, reach string, a *Addr, pos token.Pos, what string) {
	if a.Kind == AObj || a.Kind == AOpaque {
		if a.Base == "0" || true {
			fc.oblige(fr, "nil", what, reach, tNot(tEq(a.Base, "0")), false, nil)
		}
	}
}

func (fc *FnCtx) exprAt(fr *Frame, pos token.Pos, pred func(ast.Node) bool) string {
	return fc.srcText(fr.fn, pos, pred)
}

// execInstr executes one non-terminator instruction.
func (fc *FnCtx) execInstr(fr *Frame, st *State, reach string, ins ssa.Instruction) {
	switch t := ins.(type) {
	case *ssa.DebugRef:
		if id, ok := t.Expr.(*ast.Ident); ok && !t.IsAddr {
			fr.names[id.Name] = t.X
		}
	case *ssa.Alloc:
		fr.vals[t] = fc.execAlloc(fr, st, t)
	case *ssa.FieldAddr:
		x := fc.value(fr, st, t.X)
		if x.K != KAddr {
			unsup("FieldAddr on non-address")
		}
		fr.vals[t] = fc.fieldAddr(fr, st, reach, x, t.Field, t.Type(), fc.selText(fr, t.Pos()))
	case *ssa.Field:
		x := fc.value(fr, st, t.X)
		fr.vals[t] = x.Fs[t.Field]
	case *ssa.IndexAddr:
		fr.vals[t] = fc.indexAddr(fr, st, reach, t)
	case *ssa.Index:
		fr.vals[t] = fc.indexVal(fr, st, reach, t)
	case *ssa.UnOp:
		fr.vals[t] = fc.unop(fr, st, reach, t)
	case *ssa.BinOp:
		x, y := fc.value(fr, st, t.X), fc.value(fr, st, t.Y)
		fr.vals[t] = fc.nameVal(fc.binop(fr, st, reach, t.Op, x, y, t.Type(), t.Pos()), t.Name())
	case *ssa.Store:
		a := fc.value(fr, st, t.Addr)
		if a.K != KAddr {
			unsup("store to non-address")
		}
		fc.derefCheck(fr, reach, a.A, t.Pos())
		fc.guardedAccess(fr, st, reach, a.A, true)
		fc.store(st, a.A, fc.value(fr, st, t.Val))
		fc.structInvStore(fr, st, reach, a.A, t)
	case *ssa.Slice:
		fr.vals[t] = fc.nameVal(fc.sliceOp(fr, st, reach, t), t.Name())
	case *ssa.Convert:
		fr.vals[t] = fc.convert(fr, st, fc.value(fr, st, t.X), t.Type())
	case *ssa.ChangeType:
		v := fc.value(fr, st, t.X)
		fr.vals[t] = retype(v, t.Type())
	case *ssa.ChangeInterface:
		v := fc.value(fr, st, t.X)
		v.T = t.Type()
		fr.vals[t] = v
	case *ssa.MakeInterface:
		fr.vals[t] = fc.makeIface(st, fc.value(fr, st, t.X), t.Type())
	case *ssa.TypeAssert:
		fr.vals[t] = fc.typeAssert(fr, st, reach, t)
	case *ssa.Extract:
		tup := fc.value(fr, st, t.Tuple)
		fr.vals[t] = tup.Fs[t.Index]
	case *ssa.Call:
		fr.vals[t] = fc.execCall(fr, st, reach, t)
	case *ssa.MakeSlice:
		ln := fc.value(fr, st, t.Len).S
		cp := fc.value(fr, st, t.Cap).S
		fc.oblige(fr, "makeslice", fc.exprAt(fr, t.Pos(), isCall), reach, tAnd(sx("<=", "0", ln), sx("<=", ln, cp)), false, nil)
		arr := fc.newRef(st, "mk")
		fc.sc.assume(sx("<=", cp, maxLen))
		v := Val{K: KSlice, T: t.Type(), Arr: arr, Off: "0", Len: ln, Cap: cp}
		fc.zeroElems(st, v)
		fr.vals[t] = v
	case *ssa.MakeMap:
		fr.vals[t] = fc.makeMap(st, t.Type())
	case *ssa.MakeChan:
		fr.vals[t] = intVal(t.Type(), fc.newRef(st, "chan"))
	case *ssa.MakeClosure:
		v := Val{K: KFunc, T: t.Type(), Fn: t.Fn.(*ssa.Function)}
		for _, b := range t.Bindings {
			v.Bind = append(v.Bind, fc.value(fr, st, b))
		}
		fr.vals[t] = v
		// a closure under contract: the part of its precondition that speaks only
		// about captured variables is checked where the closure is created (the
		// closure may be called much later, by code that is not verified)
		if con := fc.eng.contracts[v.Fn.String()]; con != nil && len(con.Requires) > 0 && fc.quiet == 0 {
			vars := map[string]Val{}
			for i, fv := range v.Fn.FreeVars {
				if i < len(v.Bind) {
					bv := v.Bind[i]
					if bv.K == KAddr && (bv.A.Kind == ACell || capturedByRef(v.Fn, i)) {
						bv = fc.load(st, bv.A)
					}
					vars[fv.Name()] = bv
				}
			}
			for _, cl := range con.Requires {
				if !cl.AtCreation {
					continue
				}
				env := fc.specEnv(st, nil, vars, con.Pkg, nil, cl.Text)
				for _, part := range splitConj(cl.Expr) {
					fc.oblige(fr, "requires", "closure "+shortFn(v.Fn)+" (captured state at creation): "+clauseName(cl), reach, env.evalBool(part), env.quant, nil)
				}
			}
		}
	case *ssa.MapUpdate:
		fc.mapUpdate(fr, st, reach, t)
	case *ssa.Lookup:
		fr.vals[t] = fc.lookup(fr, st, reach, t)
	case *ssa.Range:
		fr.vals[t] = fc.rangeInit(fr, st, t)
	case *ssa.Next:
		fr.vals[t] = fc.rangeNext(fr, st, t)
	case *ssa.Defer:
		fc.execDefer(fr, st, reach, t)
	case *ssa.RunDefers:
		fc.runDefers(fr, st, reach)
	case *ssa.Go:
		fc.assumption("A-GO: `go` statements have no effect on the spawning function's state beyond the tokens their contract consumes")
		fc.spawn(fr, st, reach, t)
	case *ssa.Send:
		fc.assumption("A-CHAN: channel operations are nondeterministic (no FIFO, no blocking semantics)")
		fc.blockingOp(fr, st, reach, "channel send")
		fc.atSend(fr, st, reach, fc.value(fr, st, t.Chan), fc.value(fr, st, t.X))
		fc.chanSend(fr, st, reach, fc.value(fr, st, t.Chan), fc.value(fr, st, t.X), "true")
	case *ssa.Select:
		fr.vals[t] = fc.selectOp(fr, st, t)
	default:
		unsup("instruction %T: %s", ins, ins)
	}
}

func isCall(n ast.Node) bool  { _, ok := n.(*ast.CallExpr); return ok }
func isIndex(n ast.Node) bool { _, ok := n.(*ast.IndexExpr); return ok }
func isSlice(n ast.Node) bool { _, ok := n.(*ast.SliceExpr); return ok }
func isSel(n ast.Node) bool   { _, ok := n.(*ast.SelectorExpr); return ok }
func isStar(n ast.Node) bool {
	switch n.(type) {
	case *ast.StarExpr, *ast.SelectorExpr, *ast.Ident:
		return true
	}
	return false
}

func (fc *FnCtx) selText(fr *Frame, pos token.Pos) string { return fc.exprAt(fr, pos, isSel) }

func retype(v Val, t types.Type) Val {
	v.T = t
	if v.K == KStruct {
		st := t.Underlying().(*types.Struct)
		fs := make([]Val, len(v.Fs))
		for i := range v.Fs {
			fs[i] = retype(v.Fs[i], st.Field(i).Type())
		}
		v.Fs = fs
	}
	if v.K == KAddr {
		if pt, ok := t.Underlying().(*types.Pointer); ok && v.A.Kind == AObj && len(v.A.Path) == 0 && v.A.Idx == "" {
			na := *v.A
			na.Root, na.T = pt.Elem(), pt.Elem()
			v.A = &na
		}
	}
	return v
}

func (fc *FnCtx) execAlloc(fr *Frame, st *State, t *ssa.Alloc) Val {
	et := t.Type().(*types.Pointer).Elem()
	if _, isStruct := et.Underlying().(*types.Struct); isStruct {
		ref := fc.newRef(st, "new_"+t.Comment)
		if fc.freshT == nil {
			fc.freshT = map[string]types.Type{}
		}
		fc.freshT[ref] = et
		if fc.freshReach == nil {
			fc.freshReach = map[string]string{}
		}
		fc.freshReach[ref] = fc.curReach
		a := &Addr{Kind: AObj, Base: ref, Root: et, T: et}
		if g := fc.ownedGhost(et); g != "" {
			fc.storeLoc(st, loc{name: "GH$" + g, idx: []string{ref}, sort: "Int"}, "1")
		}
		fc.storeNoGuard(st, a, zeroVal(et))
		return Val{K: KAddr, T: t.Type(), A: a}
	}
	if arr, ok := et.Underlying().(*types.Array); ok {
		ref := fc.newRef(st, "arr_"+t.Comment)
		n := num(arr.Len())
		v := Val{K: KSlice, T: types.NewSlice(arr.Elem()), Arr: ref, Off: "0", Len: n, Cap: n}
		fc.zeroElems(st, v)
		return Val{K: KAddr, T: t.Type(), A: &Addr{Kind: AElem, Base: ref, Idx: "", ElemT: arr.Elem(), T: et}}
	}
	c := fc.newCell(fr, t.Comment+t.Name(), et)
	st.cells[c] = zeroVal(et)
	fc.noteCellWrite(c)
	return Val{K: KAddr, T: t.Type(), A: &Addr{Kind: ACell, Cell: c, T: et}}
}

func (fc *FnCtx) storeNoGuard(st *State, a *Addr, v Val) { fc.store(st, a, v) }

// zeroElems makes all elements of a fresh slice zero.
func (fc *FnCtx) zeroElems(st *State, s Val) {
	et := s.T.Underlying().(*types.Slice).Elem()
	a := &Addr{Kind: AElem, Base: s.Arr, Idx: "0", ElemT: et, T: et}
	if structOf(et) != nil && kindOf(et) == KStruct {
		// struct elements: zero each leaf array
	}
	base, _ := fc.addrBase(a)
	walkVal(zeroVal(et), "", func(suffix, sort, term string, t types.Type) {
		l := loc{name: lname(base, suffix), idx: []string{"", ""}, sort: sort}
		cur := fc.heapTerm(st, l.name, l.arraySort())
		inner := "((as const (Array Int " + sort + ")) " + term + ")"
		st.heap[l.name] = fc.nameTerm("hz", l.arraySort(), tStore(cur, s.Arr, inner))
		fc.noteWrite(l.name)
	})
}

func (fc *FnCtx) derefCheck(fr *Frame, reach string, a *Addr, pos token.Pos) {
	// nil checks are emitted where the address is formed (FieldAddr/IndexAddr)
	// or here for a direct deref of an object pointer.
}

func (fc *FnCtx) fieldAddr(fr *Frame, st *State, reach string, x Val, field int, resT types.Type, text string) Val {
	if x.A.Alt != nil {
		p := *x.A
		p.Alt, p.AltCond = nil, ""
		v1 := fc.fieldAddr(fr, st, tAnd(reach, x.A.AltCond), Val{K: KAddr, T: x.T, A: &p}, field, resT, text)
		v2 := fc.fieldAddr(fr, st, tAnd(reach, tNot(x.A.AltCond)), Val{K: KAddr, T: x.T, A: x.A.Alt}, field, resT, text)
		v1.A.Alt, v1.A.AltCond = v2.A, x.A.AltCond
		return v1
	}
	a := *x.A
	a.Path = append(append([]int{}, a.Path...), field)
	ft := resT.Underlying().(*types.Pointer).Elem()
	a.T = ft
	switch x.A.Kind {
	case AObj:
		if len(x.A.Path) == 0 && x.A.Idx == "" && !fc.nonNil[x.A.Base] {
			fc.oblige(fr, "nil", text, reach, tNot(tEq(x.A.Base, "0")), false, nil)
		}
	case AOpaque:
		unsup("field of opaque pointer %s", text)
	}
	return Val{K: KAddr, T: resT, A: &a}
}

func (fc *FnCtx) indexAddr(fr *Frame, st *State, reach string, t *ssa.IndexAddr) Val {
	x := fc.value(fr, st, t.X)
	i := fc.value(fr, st, t.Index).S
	text := fc.exprAt(fr, t.Pos(), isIndex)
	et := t.Type().(*types.Pointer).Elem()
	switch x.K {
	case KSlice:
		fc.oblige(fr, "index", text, reach, tAnd(sx("<=", "0", i), sx("<", i, x.Len)), false, nil)
		return Val{K: KAddr, T: t.Type(), A: &Addr{Kind: AElem, Base: x.Arr, Idx: tAdd(x.Off, i), ElemT: et, T: et}}
	case KAddr:
		// pointer to array
		arr, ok := x.A.T.Underlying().(*types.Array)
		if !ok {
			unsup("IndexAddr on pointer to %s", x.A.T)
		}
		fc.oblige(fr, "index", text, reach, tAnd(sx("<=", "0", i), sx("<", i, num(arr.Len()))), false, nil)
		switch x.A.Kind {
		case AElem:
			if x.A.Idx != "" {
				unsup("nested array in slice element")
			}
			return Val{K: KAddr, T: t.Type(), A: &Addr{Kind: AElem, Base: x.A.Base, Idx: i, ElemT: et, T: et}}
		case AObj, AGlobal:
			return Val{K: KAddr, T: t.Type(), A: &Addr{Kind: AElem, Base: fc.arrayFieldID(st, x.A), Idx: i, ElemT: et, T: et}}
		}
	}
	unsup("IndexAddr on %T kind %d", t.X.Type(), x.K)
	return Val{}
}

// arrayFieldID: the backing-array id of an array-typed field (or global). It
// is an injective function of the owning object, and is allocated.
func (fc *FnCtx) arrayFieldID(st *State, a *Addr) string {
	if a.Idx != "" {
		unsup("nested arrays")
	}
	var name string
	var id string
	switch a.Kind {
	case AObj:
		p, _ := pathName(a.Root, a.Path)
		name = sanitize("afield$" + typeName(a.Root) + "$" + p)
		fc.sc.declareFun(name, []string{"Int"}, "Int")
		fc.sc.declareFun(name+"_inv", []string{"Int"}, "Int")
		id = sx(name, a.Base)
		fc.sc.assume(tAnd(sx(">", id, "0"), tEq(sx(name+"_inv", id), a.Base), tSel(fc.alloc(st), id)))
	case AGlobal:
		p, _ := pathName(a.Root, a.Path)
		id = sanitize("garr$" + a.Global.Pkg.Pkg.Name() + "." + a.Global.Name() + "$" + p)
		fc.sc.declare(id, "Int")
		fc.sc.assume(tAnd(sx(">", id, "0"), tSel(fc.alloc(st), id)))
	default:
		unsup("array inside kind %d", a.Kind)
	}
	return id
}

func (fc *FnCtx) indexVal(fr *Frame, st *State, reach string, t *ssa.Index) Val {
	x := fc.value(fr, st, t.X)
	i := fc.value(fr, st, t.Index).S
	text := fc.exprAt(fr, t.Pos(), isIndex)
	if x.K == KStr {
		fc.oblige(fr, "index", text, reach, tAnd(sx("<=", "0", i), sx("<", i, sx("str.len", x.S))), false, nil)
		return intVal(t.Type(), sx("str.to_code", sx("str.at", x.S, i)))
	}
	unsup("Index on %s", t.X.Type())
	return Val{}
}

func (fc *FnCtx) unop(fr *Frame, st *State, reach string, t *ssa.UnOp) Val {
	x := fc.value(fr, st, t.X)
	switch t.Op {
	case token.MUL: // load
		if x.K != KAddr {
			unsup("load from non-address")
		}
		if x.A.Kind == AObj && len(x.A.Path) == 0 && x.A.Idx == "" && !fc.nonNil[x.A.Base] {
			fc.oblige(fr, "nil", fc.exprAt(fr, t.Pos(), isStar), reach, tNot(tEq(x.A.Base, "0")), false, nil)
		}
		fc.guardedAccess(fr, st, reach, x.A, false)
		fc.atRead(fr, st, reach, x.A)
		return fc.nameVal(fc.load(st, x.A), t.Name())
	case token.NOT:
		return boolVal(tNot(x.S))
	case token.SUB:
		if x.K == KFloat {
			return x
		}
		return intVal(t.Type(), wrapTerm(t.Type(), sx("-", x.S)))
	case token.ARROW:
		fc.assumption("A-CHAN: channel operations are nondeterministic (no FIFO, no blocking semantics)")
		fc.blockingOp(fr, st, reach, "channel receive "+fc.exprAt(fr, t.Pos(), func(n ast.Node) bool { _, ok := n.(*ast.UnaryExpr); return ok }))
		if x.Orig != "ctx.Done" {
			fc.unboundedWait(fr, reach, "channel receive "+fc.exprAt(fr, t.Pos(), func(n ast.Node) bool { _, ok := n.(*ast.UnaryExpr); return ok }))
		}
		et := t.X.Type().Underlying().(*types.Chan).Elem()
		v := fc.freshVal(st, et, "recv")
		fc.noteRecvTry(st, x)
		fc.chanRecv(st, reach, x, v, "true")
		if t.CommaOk {
			ok := fc.sc.fresh("recvok", "Bool")
			return Val{K: KTuple, T: t.Type(), Fs: []Val{v, boolVal(ok)}}
		}
		return v
	case token.XOR:
		lo, hi, _ := intRange(t.Type())
		if lo.Sign() == 0 {
			return intVal(t.Type(), sx("-", bigNum(hi), x.S))
		}
		return intVal(t.Type(), sx("-", sx("-", x.S), "1"))
	}
	unsup("unop %s", t.Op)
	return Val{}
}

func pow2(k int64) *big.Int { return new(big.Int).Lsh(big.NewInt(1), uint(k)) }

func constInt(s string) (*big.Int, bool) {
	b, ok := new(big.Int).SetString(s, 10)
	return b, ok
}

func (fc *FnCtx) binop(fr *Frame, st *State, reach string, op token.Token, x, y Val, rt types.Type, pos token.Pos) Val {
	switch op {
	case token.EQL, token.NEQ:
		e := fc.valEq(x, y)
		if op == token.NEQ {
			e = tNot(e)
		}
		return boolVal(e)
	}
	if x.K == KBool {
		switch op {
		case token.AND, token.LAND:
			return boolVal(tAnd(x.S, y.S))
		case token.OR, token.LOR:
			return boolVal(tOr(x.S, y.S))
		}
	}
	if x.K == KStr {
		switch op {
		case token.ADD:
			return strVal(rt, sx("str.++", x.S, y.S))
		case token.LSS:
			return boolVal(sx("str.<", x.S, y.S))
		case token.LEQ:
			return boolVal(sx("str.<=", x.S, y.S))
		case token.GTR:
			return boolVal(sx("str.<", y.S, x.S))
		case token.GEQ:
			return boolVal(sx("str.<=", y.S, x.S))
		}
	}
	if x.K == KFloat || y.K == KFloat {
		switch op {
		case token.LSS, token.LEQ, token.GTR, token.GEQ:
			return boolVal(fc.sc.fresh("fcmp", "Bool"))
		}
		return Val{K: KFloat, T: rt, S: fc.sc.fresh("flt", "Int")}
	}
	a, b := x.S, y.S
	switch op {
	case token.LSS:
		return boolVal(sx("<", a, b))
	case token.LEQ:
		return boolVal(sx("<=", a, b))
	case token.GTR:
		return boolVal(sx(">", a, b))
	case token.GEQ:
		return boolVal(sx(">=", a, b))
	case token.ADD:
		return intVal(rt, wrapTerm(rt, sx("+", a, b)))
	case token.SUB:
		return intVal(rt, wrapTerm(rt, sx("-", a, b)))
	case token.MUL:
		return intVal(rt, wrapTerm(rt, sx("*", a, b)))
	case token.QUO, token.REM:
		fc.oblige(fr, "divzero", fc.exprAt(fr, pos, func(n ast.Node) bool { _, ok := n.(*ast.BinaryExpr); return ok }), reach, tNot(tEq(b, "0")), false, nil)
		q, r := goDivRem(a, b)
		if op == token.QUO {
			return intVal(rt, wrapTerm(rt, q))
		}
		return intVal(rt, r)
	case token.AND:
		return intVal(rt, fc.bitAnd(a, b, rt))
	case token.OR:
		return intVal(rt, fc.bitOr(st, a, b, rt))
	case token.XOR:
		r := fc.sc.fresh("xor", "Int")
		fc.sc.assume(tAnd(rangeTerm(rt, r), tEq(r, sx("bitxor", a, b))))
		return intVal(rt, r)
	case token.AND_NOT:
		r := fc.sc.fresh("andnot", "Int")
		fc.sc.assume(tAnd(rangeTerm(rt, r), tImp(sx(">=", a, "0"), tAnd(sx("<=", "0", r), sx("<=", r, a)))))
		fc.assumption("abstracted-bitop: &^ result constrained only by range")
		return intVal(rt, r)
	case token.SHL:
		if k, ok := constInt(b); ok && k.IsInt64() && k.Int64() < 64 {
			return intVal(rt, wrapTerm(rt, sx("*", a, pow2(k.Int64()).String())))
		}
		r := fc.sc.fresh("shl", "Int")
		fc.sc.assume(tAnd(rangeTerm(rt, r), tEq(r, wrapTerm(rt, sx("shl", a, b)))))
		fc.assumption("abstracted-bitop: << by a non-constant")
		return intVal(rt, r)
	case token.SHR:
		if k, ok := constInt(b); ok && k.IsInt64() && k.Int64() < 64 {
			return intVal(rt, sx("div", a, pow2(k.Int64()).String()))
		}
		r := fc.sc.fresh("shr", "Int")
		fc.sc.assume(tAnd(rangeTerm(rt, r), tEq(r, sx("shr", a, b)), tImp(sx(">=", a, "0"), tAnd(sx("<=", "0", r), sx("<=", r, a)))))
		fc.assumption("abstracted-bitop: >> by a non-constant")
		return intVal(rt, r)
	}
	unsup("binop %s", op)
	return Val{}
}

// goDivRem: Go's truncated division in terms of SMT floor division.
func goDivRem(a, b string) (q, r string) {
	q = tIte(sx(">=", a, "0"), sx("div", a, b), sx("-", sx("div", sx("-", a), b)))
	r = sx("-", a, sx("*", b, q))
	if k, ok := constInt(b); ok && k.Sign() > 0 {
		r = tIte(sx(">=", a, "0"), sx("mod", a, b), sx("-", sx("mod", sx("-", a), b)))
	}
	return
}

func isPow2Minus1(b *big.Int) (int, bool) {
	if b.Sign() <= 0 {
		return 0, false
	}
	n := new(big.Int).Add(b, big.NewInt(1))
	if new(big.Int).And(n, b).Sign() == 0 {
		return n.BitLen() - 1, true
	}
	return 0, false
}

func isPow2(b *big.Int) (int, bool) {
	if b.Sign() <= 0 {
		return 0, false
	}
	if new(big.Int).And(b, new(big.Int).Sub(b, big.NewInt(1))).Sign() == 0 {
		return b.BitLen() - 1, true
	}
	return 0, false
}

func (fc *FnCtx) bitAnd(a, b string, rt types.Type) string {
	for i := 0; i < 2; i++ {
		if k, ok := constInt(b); ok {
			if n, ok := isPow2Minus1(k); ok {
				return sx("mod", a, pow2(int64(n)).String()) // operands of unsigned/non-negative values
			}
			if n, ok := isPow2(k); ok {
				// single bit test: ((a div 2^n) mod 2) * 2^n
				return sx("*", sx("mod", sx("div", a, pow2(int64(n)).String()), "2"), k.String())
			}
			if k.Sign() == 0 {
				return "0"
			}
		}
		a, b = b, a
	}
	r := fc.sc.fresh("and", "Int")
	fc.sc.assume(tAnd(rangeTerm(rt, r), tEq(r, sx("bitand", a, b)),
		tImp(tAnd(sx(">=", a, "0"), sx(">=", b, "0")), tAnd(sx("<=", "0", r), sx("<=", r, a), sx("<=", r, b)))))
	fc.assumption("abstracted-bitop: & with a non-mask operand (result bounded by both operands)")
	return r
}

func (fc *FnCtx) bitOr(st *State, a, b string, rt types.Type) string {
	r := fc.sc.fresh("or", "Int")
	fc.sc.assume(tAnd(rangeTerm(rt, r), tEq(r, sx("bitor", a, b)),
		tImp(tAnd(sx(">=", a, "0"), sx(">=", b, "0")), tAnd(sx("<=", a, r), sx("<=", b, r), sx("<=", r, sx("+", a, b))))))
	fc.assumption("abstracted-bitop: | (result between max and sum of operands)")
	return r
}

// valEq is Go's == on two values of the same type.
func (fc *FnCtx) valEq(x, y Val) string {
	switch x.K {
	case KInt, KBool, KStr:
		if y.K == KSlice || y.K == KIface || y.K == KAddr || y.K == KFunc { // nil const typed loosely
			return fc.valEq(y, x)
		}
		return tEq(x.S, y.S)
	case KFloat:
		return fc.sc.fresh("feq", "Bool")
	case KSlice:
		// only comparison with nil is legal
		return tEq(x.Arr, "0")
	case KIface:
		if y.K == KIface {
			return tAnd(tEq(x.Tag, y.Tag), tEq(x.S, y.S))
		}
		return tEq(x.Tag, "0")
	case KAddr:
		if y.K == KAddr {
			if x.A.Kind == AObj && y.A.Kind == AObj && len(x.A.Path) == 0 && len(y.A.Path) == 0 {
				return tEq(x.A.Base, y.A.Base)
			}
			if (x.A.Kind == AObj || x.A.Kind == AOpaque) && (y.A.Kind == AObj || y.A.Kind == AOpaque) && len(x.A.Path) == 0 && len(y.A.Path) == 0 {
				return tEq(x.A.Base, y.A.Base)
			}
			if x.A.Kind == AObj && len(x.A.Path) > 0 && y.A.Base == "0" {
				return "false"
			}
			unsup("comparison of interior pointers")
		}
		return tEq(x.A.Base, "0")
	case KFunc:
		if x.Fn != nil {
			return "false"
		}
		return tEq(x.S, "0")
	case KStruct:
		var cs []string
		for i := range x.Fs {
			cs = append(cs, fc.valEq(x.Fs[i], y.Fs[i]))
		}
		return tAnd(cs...)
	}
	unsup("== on kind %d", x.K)
	return ""
}

func (fc *FnCtx) sliceOp(fr *Frame, st *State, reach string, t *ssa.Slice) Val {
	x := fc.value(fr, st, t.X)
	text := fc.exprAt(fr, t.Pos(), isSlice)
	get := func(v ssa.Value, def string) string {
		if v == nil {
			return def
		}
		return fc.value(fr, st, v).S
	}
	switch x.K {
	case KStr:
		ln := sx("str.len", x.S)
		lo, hi := get(t.Low, "0"), get(t.High, ln)
		fc.oblige(fr, "slice", text, reach, tAnd(sx("<=", "0", lo), sx("<=", lo, hi), sx("<=", hi, ln)), false, nil)
		return strVal(t.Type(), sx("str.substr", x.S, lo, sx("-", hi, lo)))
	case KSlice:
		lo, hi, mx := get(t.Low, "0"), get(t.High, x.Len), get(t.Max, x.Cap)
		fc.oblige(fr, "slice", text, reach, tAnd(sx("<=", "0", lo), sx("<=", lo, hi), sx("<=", hi, mx), sx("<=", mx, x.Cap)), false, nil)
		return Val{K: KSlice, T: t.Type(), Arr: x.Arr, Off: tAdd(x.Off, lo), Len: tSub(hi, lo), Cap: tSub(mx, lo)}
	case KAddr:
		arr, ok := x.A.T.Underlying().(*types.Array)
		if !ok {
			unsup("slice of pointer to %s", x.A.T)
		}
		n := num(arr.Len())
		lo, hi, mx := get(t.Low, "0"), get(t.High, n), get(t.Max, n)
		fc.oblige(fr, "slice", text, reach, tAnd(sx("<=", "0", lo), sx("<=", lo, hi), sx("<=", hi, mx), sx("<=", mx, n)), false, nil)
		switch x.A.Kind {
		case AElem:
			if x.A.Idx == "" {
				return Val{K: KSlice, T: t.Type(), Arr: x.A.Base, Off: lo, Len: tSub(hi, lo), Cap: tSub(mx, lo)}
			}
		case AObj, AGlobal:
			return Val{K: KSlice, T: t.Type(), Arr: fc.arrayFieldID(st, x.A), Off: lo, Len: tSub(hi, lo), Cap: tSub(mx, lo)}
		}
	}
	unsup("slice of kind %d", x.K)
	return Val{}
}

func (fc *FnCtx) convert(fr *Frame, st *State, x Val, to types.Type) Val {
	fk, tk := x.K, kindOf(to)
	switch {
	case fk == KInt && tk == KInt:
		if _, ok := to.Underlying().(*types.Basic); ok {
			if _, _, isInt := intRange(to); isInt {
				return intVal(to, fc.nameTerm("cv", "Int", wrapTerm(to, x.S)))
			}
		}
		return intVal(to, x.S)
	case fk == KStr && tk == KStr:
		return strVal(to, x.S)
	case fk == KSlice && tk == KStr:
		// string(bytes)
		r := fc.sc.fresh("str", "String")
		fc.sc.assume(tEq(sx("str.len", r), x.Len))
		fc.sc.assume(tEq(r, sx("str_of_bytes", tSel(fc.elemArray(st, x), x.Arr), x.Off, x.Len)))
		return strVal(to, r)
	case fk == KStr && tk == KSlice:
		arr := fc.newRef(st, "sb")
		ln := sx("str.len", x.S)
		v := Val{K: KSlice, T: to, Arr: arr, Off: "0", Len: ln, Cap: ln}
		name := "M$" + typeName(to.Underlying().(*types.Slice).Elem()) + "$"
		l := loc{name: name, idx: []string{"", ""}, sort: "Int"}
		cur := fc.heapTerm(st, name, l.arraySort())
		inner := fc.sc.fresh("sbytes", "(Array Int Int)")
		fc.sc.assume(tEq(inner, sx("bytes_of_str", x.S)))
		st.heap[name] = fc.nameTerm("hs", l.arraySort(), tStore(cur, arr, inner))
		fc.noteWrite(name)
		return v
	case fk == KInt && tk == KFloat, fk == KFloat && tk == KFloat:
		return Val{K: KFloat, T: to, S: fc.sc.fresh("flt", "Int")}
	case fk == KFloat && tk == KInt:
		return fc.freshVal(st, to, "f2i")
	case fk == KInt && tk == KStr:
		return strVal(to, fc.sc.fresh("runestr", "String"))
	case fk == KSlice && tk == KSlice:
		x.T = to
		return x
	case fk == KAddr && tk == KInt, fk == KInt && tk == KAddr:
		unsup("unsafe pointer conversion")
	}
	unsup("convert %s -> %s", x.T, to)
	return Val{}
}

// elemArray returns the current M$ array term for a slice of scalars.
func (fc *FnCtx) elemArray(st *State, s Val) string {
	et := s.T.Underlying().(*types.Slice).Elem()
	name := "M$" + typeName(et) + "$"
	return fc.heapTerm(st, name, "(Array Int (Array Int "+sortOfKind(kindOf(et))+"))")
}

func (fc *FnCtx) makeIface(st *State, x Val, it types.Type) Val {
	if x.K == KIface {
		x.T = it
		return x
	}
	tag := fc.tagOf(x.T)
	switch x.K {
	case KInt:
		return Val{K: KIface, T: it, Tag: tag, S: x.S}
	case KBool:
		return Val{K: KIface, T: it, Tag: tag, S: tIte(x.S, "1", "0")}
	case KAddr:
		if x.A.Kind == AObj && len(x.A.Path) == 0 && x.A.Idx == "" || x.A.Kind == AOpaque {
			return Val{K: KIface, T: it, Tag: tag, S: x.A.Base}
		}
		if x.A.Kind == AObj && x.A.Idx == "" {
			// interior pointer: payload is an injective function of the owning object (opaque when unboxed)
			p, _ := pathName(x.A.Root, x.A.Path)
			fn := sanitize("iptr$" + typeName(x.A.Root) + "$" + p)
			fc.sc.declareFun(fn, []string{"Int"}, "Int")
			id := sx(fn, x.A.Base)
			fc.sc.assume(sx(">", id, "0"))
			return Val{K: KIface, T: it, Tag: tag, S: id}
		}
if x.A.Kind == AElem && x.A.Idx == "" && len(x.A.Path) == 0 {
			// pointer to a whole array object: the payload is the array's identity
			return Val{K: KIface, T: it, Tag: tag, S: x.A.Base}
		}
				unsup("interior pointer in interface (kind %d idx %q path %v type %v)", x.A.Kind, x.A.Idx, x.A.Path, x.T)
	case KStruct:
		ref := fc.newRef(st, "box")
		fc.store(st, &Addr{Kind: AObj, Base: ref, Root: x.T, T: x.T}, x)
		return Val{K: KIface, T: it, Tag: tag, S: ref}
	case KStr:
		ref := fc.newRef(st, "boxs")
		l := loc{name: "B$string", idx: []string{ref}, sort: "String"}
		fc.storeLoc(st, l, x.S)
		return Val{K: KIface, T: it, Tag: tag, S: ref}
	case KSlice, KFunc, KFloat, KArray:
		ref := fc.newRef(st, "boxo")
		return Val{K: KIface, T: it, Tag: tag, S: ref}
	}
	unsup("MakeInterface of kind %d", x.K)
	return Val{}
}

// unbox recovers a concrete value of type t from an interface payload.
func (fc *FnCtx) unbox(st *State, payload string, t types.Type) Val {
	switch kindOf(t) {
	case KInt:
		v := intVal(t, payload)
		return v
	case KBool:
		return boolVal(tEq(payload, "1"))
	case KAddr:
		return buildVal(t, "", func(string, string, types.Type) string { return payload })
	case KStruct:
		return fc.load(st, &Addr{Kind: AObj, Base: payload, Root: t, T: t})
	case KStr:
		return strVal(t, fc.loadLoc(st, loc{name: "B$string", idx: []string{payload}, sort: "String"}))
	}
	return fc.freshVal(st, t, "unbox")
}

func (fc *FnCtx) typeAssert(fr *Frame, st *State, reach string, t *ssa.TypeAssert) Val {
	x := fc.value(fr, st, t.X)
	var ok string
	var v Val
	if types.IsInterface(t.AssertedType) {
		// interface-to-interface: satisfied iff the dynamic type implements it
		ok = fc.implements(x, t.AssertedType)
		v = Val{K: KIface, T: t.AssertedType, Tag: x.Tag, S: x.S}
	} else {
		ok = tEq(x.Tag, fc.tagOf(t.AssertedType))
		v = fc.unbox(st, x.S, t.AssertedType)
		if v.K == KInt {
			fc.sc.assume(tImp(ok, rangeTerm(v.T, v.S)))
		}
	}
	if fc.poolVals[x.Tag] {
		fc.assumption("T3 sync.Pool discipline: Get() yields a non-nil value of the type asserted at the call site")
		fc.sc.assume(ok)
		if v.K == KAddr {
			fc.sc.assume(tAnd(tNot(tEq(v.A.Base, "0")), tSel(fc.alloc(st), v.A.Base)))
		}
	}
	if t.CommaOk {
		okc := fc.nameTerm("taok", "Bool", ok)
		zero := zeroVal(t.AssertedType)
		return Val{K: KTuple, T: t.Type(), Fs: []Val{fc.mergeVal(okc, v, zero), boolVal(okc)}}
	}
	fc.oblige(fr, "typeassert", fc.exprAt(fr, t.Pos(), func(n ast.Node) bool { _, ok := n.(*ast.TypeAssertExpr); return ok }), reach, ok, false, nil)
	return v
}

// implements: does the dynamic type of x implement interface it? Decided for
// the concrete types the engine has seen; other tags are unconstrained.
func (fc *FnCtx) implements(x Val, it types.Type) string {
	iface := it.Underlying().(*types.Interface)
	fname := "impl$" + sanitize(types.TypeString(it, nil))
	fc.sc.declareFun(fname, []string{"Int"}, "Bool")
	r := sx(fname, x.Tag)
	fc.sc.assume(tImp(r, tNot(tEq(x.Tag, "0"))))
	ids := make([]int, 0, len(fc.tagTypes))
	for id := range fc.tagTypes {
		ids = append(ids, id)
	}
	sortInts(ids)
	for _, id := range ids {
		ct := fc.tagTypes[id]
		imp := types.Implements(ct, iface)
		fc.sc.assume(tImp(tEq(x.Tag, num(int64(id))), tEq(r, fmt.Sprint(imp))))
	}
	return r
}

func sortInts(a []int) {
	for i := 1; i < len(a); i++ {
		for j := i; j > 0 && a[j] < a[j-1]; j-- {
			a[j], a[j-1] = a[j-1], a[j]
		}
	}
}

func (fc *FnCtx) selectOp(fr *Frame, st *State, t *ssa.Select) Val {
	fc.assumption("A-CHAN: channel operations are nondeterministic (no FIFO, no blocking semantics)")
	tu := t.Type().(*types.Tuple)
	idx := fc.sc.fresh("selidx", "Int")
	lo := "0"
	if !t.Blocking {
		lo = "(- 1)"
	}
	fc.sc.assume(tAnd(sx("<=", lo, idx), sx("<", idx, num(int64(len(t.States))))))
	if t.Blocking {
		fc.blockingOp(fr, st, fc.curReach, "blocking select")
		hasDone := false
		for _, sst := range t.States {
			if sst.Send == nil && fc.value(fr, st, sst.Chan).Orig == "ctx.Done" {
				hasDone = true
			}
		}
		if !hasDone {
			fc.unboundedWait(fr, fc.curReach, "blocking select without a ctx.Done() case")
		}
	}
	for k, sst := range t.States {
		if sst.Send != nil {
			fc.atSend(fr, st, fc.curReach, fc.value(fr, st, sst.Chan), fc.value(fr, st, sst.Send))
			fc.chanSend(fr, st, fc.curReach, fc.value(fr, st, sst.Chan), fc.value(fr, st, sst.Send), tEq(idx, num(int64(k))))
		}
	}
	v := Val{K: KTuple, T: tu, Fs: []Val{intVal(tu.At(0).Type(), idx), boolVal(fc.sc.fresh("selok", "Bool"))}}
	ri := 2
	for k, sst := range t.States {
		if sst.Send != nil {
			continue
		}
		fc.noteRecvTry(st, fc.value(fr, st, sst.Chan))
		if ri < tu.Len() {
			got := fc.freshVal(st, tu.At(ri).Type(), "selrecv")
			v.Fs = append(v.Fs, got)
			fc.chanRecv(st, fc.curReach, fc.value(fr, st, sst.Chan), got, tEq(idx, num(int64(k))))
			ri++
		}
	}
	return v
}

// noteRecvTry counts a receive attempt on a channel (built-in volatile ghost
// recvtries; modelled only in functions whose contract mentions it).
func (fc *FnCtx) noteRecvTry(st *State, ch Val) {
	if ch.S == "" || !fc.usesVolatile("recvtries") {
		return
	}
	l := loc{name: "GH$recvtries", idx: []string{ch.S}, sort: "Int"}
	fc.storeLoc(st, l, sx("+", fc.loadLoc(st, l), "1"))
}

// atRead checks the function's `atread` clauses just before a load of a struct
// field with that name (in the function's own body, not in inlined callees).
func (fc *FnCtx) atRead(fr *Frame, st *State, reach string, a *Addr) {
	if fr.parent != nil || fc.con == nil || len(fc.con.AtRead) == 0 || a.Kind != AObj || len(a.Path) == 0 || a.Root == nil {
		return
	}
	if structOf(a.Root) == nil {
		return
	}
	full, _ := pathName(a.Root, a.Path)
	last := full
	if i := strings.LastIndex(full, "."); i >= 0 {
		last = full[i+1:]
	}
	for _, ar := range fc.con.AtRead {
		if ar.Field != last && ar.Field != full {
			continue
		}
		env := fc.specEnv(st, fc.oldSt, fc.paramVars(fr), fr.fn.Pkg.Pkg, fr, ar.Clause.Text)
		for _, part := range splitConj(ar.Clause.Expr) {
			fc.oblige(fr, "atread", ar.Field+": "+clauseName(ar.Clause), reach, env.evalBool(part), env.quant, nil)
		}
	}
}

// atSend checks the function's `atsend` clauses for a send on a channel that
// was loaded from a struct field.
func (fc *FnCtx) atSend(fr *Frame, st *State, reach string, ch Val, sent Val) {
	if fr.parent != nil || fc.con == nil || ch.Orig == "" {
		return
	}
	for _, as := range fc.con.AtSend {
		if !strings.HasSuffix(ch.Orig, "."+as.Field) {
			continue
		}
		vars := map[string]Val{}
		for k, v := range fc.paramVars(fr) {
			vars[k] = v
		}
		vars["sent"] = sent
		env := fc.specEnv(st, fc.oldSt, vars, fr.fn.Pkg.Pkg, fr, as.Clause.Text)
		t := env.evalBool(as.Clause.Expr)
		fc.oblige(fr, "atsend", as.Field+": "+clauseName(as.Clause), reach, t, env.quant, nil)
	}
}

// spawn: `go f(args)` checks f's requires and hands over the tokens f consumes.
func (fc *FnCtx) spawn(fr *Frame, st *State, reach string, g *ssa.Go) {
	com := g.Common()
	callee := com.StaticCallee()
	if callee == nil {
		return
	}
	con := fc.eng.contracts[callee.String()]
	if con == nil {
		return
	}
	var args []Val
	for _, a := range com.Args {
		args = append(args, fc.value(fr, st, a))
	}
	vars := bindParams(con, callee, args)
	if len(con.Consumes) == 0 {
		if len(con.Requires) > 0 {
			fc.assumption("A-GO-REQ: preconditions of the goroutine body are assumed, not checked, at `go " + shortName(callee) + "`")
		}
		return
	}
	for _, cl := range con.Requires {
		env := fc.specEnv(st, nil, vars, con.Pkg, nil, cl.Text)
		fc.oblige(fr, "requires", "go "+shortName(callee)+": "+clauseName(cl), reach, env.evalBool(cl.Expr), env.quant, nil)
	}
	fc.consume(fr, st, reach, con, vars, con.Consumes, "go "+shortName(callee), "true")
}
