package main

// Contract files: comment-only Go files (//go:build verif) inside /repo
// packages. Every line of interest starts with "//@".
//
//   //@ pred NAME(params) := <spec>
//   //@ ghost func NAME(params) type
//   //@ func (recv) Name(params) (results)          -- function header (Go syntax)
//   //@ closure (recv) Name N                      -- N-th closure of a function (Name$N)
//   //@ iface TypeName.Method(params) (results)    -- contract on an interface method
//   //@   requires <spec>
//   //@   ensures  <spec>
//   //@   modifies <lvalue>, <lvalue>, ...
//   //@   loop K invariant <spec>
//   //@   property C01 C03 [top]
//   //@   inline | trusted | nilrecv | maypanic
//   //@   label NAME       (names the next clause; used in obligation names)
//
// Continuation lines: a line whose text starts with more indentation than the
// clause keyword and does not start with a keyword is appended.

import (
	"fmt"
	"go/ast"
	"go/parser"
	"go/token"
	"go/types"
	"os"
	"path/filepath"
	"sort"
	"strconv"
	"strings"
)

type Clause struct {
	Text  string
	Label string
	Expr  Spec
	Props []string
	Top   bool
	AtCreation bool // closure precondition over captured state: checked where the closure is created
}

type Contract struct {
	Key       string
	Header    string
	Decl      *ast.FuncDecl
	Pkg       *types.Package
	Requires  []*Clause
	Ensures   []*Clause
	Modifies  []string
	ModAll    bool
	AllText   string   // every clause line of the contract (to see which ghosts it mentions)
	ModAllBut []string // `modifies allbut T, ghost, bytes`: everything may change except these
	HasMod    bool
	LoopInv   map[int][]*Clause
	LoopStep  map[int][]*Clause
	LoopEntry map[int][]*Clause // `loop K entry <spec>`: checked once where the loop is entered, never assumed
	AtSend    []*AtSend
	AtCall    []*AtSend // Field = callee name
	AtRead    []*AtSend // Field = name of a struct field: checked just before every load of that field
	Props     []string
	Inline    bool
	InlineExplicit bool // `inline` written in the contract (kept when contracts are conjoined)
	Trusted   bool
	NilRecv   bool
	Nilable   map[string]bool
	MayPanic  bool
	Pure      bool
	NoSafety  bool
	NoPanic   bool // `nopanic`: the function's own panic statements are unreachable (checked even under nosafety)
	Effect    string   // "", "nonblocking", "bounded": blocking-effect class (C05)
	EffectInferred bool // Effect was proposed by inferEffects (and is checked by the function's own verification)
	Stale     string // non-empty: the header does not match the function's signature
	AlsoKeep  []string // keep-list of a conjoined `allbut` contract when the merged frame is an explicit target list
	Consumes  []string // ghost tokens given away by the call/send/spawn: checked == 1, then set to 0
	Produces  []string // chanfield: ghost tokens obtained by the receiver: set to 1 // implicit panics are assumed away, not checked, under this contract
	Defines   []*Clause
	File      string
	IsIface   bool
	lineNo    int
	Replay    []string
}

// AtSend: a fact checked at every send on the channel held in a struct field
// of that name, inside the function (the sent value is `sent`).
type AtSend struct {
	Field  string
	Clause *Clause
}

// StructInv: a fact about fields of a struct that are written only by the
// listed functions (constructors). It is proved at the end of those functions
// and assumed for every other pointer to such a struct.
type StructInv struct {
	TypeName    string
	Self        string
	Established []string
	WritersOnly bool     // `writers T.f : f1, f2`: only a restriction of who may store to the field (no invariant, no verified-writer exemption)
	Helpers     []string // may write the fields too, but are only called from establishing functions / other helpers (checked)
	Clause      *Clause
	Pkg         *types.Package
	rootType    types.Type
	fields      map[string]bool // field paths (heap-name style, e.g. "channelConnectionCommon.log") the clause mentions
	embeddedRoots map[string]string // by-value struct types on the path of an invariant field -> their path prefix
	stable      map[string]bool // ... that are written by the establishing functions only: their VALUE never changes afterwards
}

// touches: the invariant field path that a store to storePath overlaps ("" if none).
func (si *StructInv) touches(storePath string) string {
	for p := range si.fields {
		if storePath == p || strings.HasPrefix(storePath, p+".") || strings.HasPrefix(p, storePath+".") {
			return p
		}
	}
	return ""
}

type Pred struct {
	Name   string
	Params []string
	Body   Spec
	Text   string
	Pkg    *types.Package
}

type GhostFunc struct {
	Name   string
	Params []string // sorts; "bytes" expands to (Array Int Int) Int Int
	Ret    string
	RetT   ast.Expr
	Pkg    *types.Package
	Field  bool // ghost field: a heap-like Int->Ret map indexed by an object reference
	// Volatile ghost field ("observation register"): any call may change it without
	// saying so -- it is exempt from frame checks and forgotten at every call that
	// does not define it; it may not appear in a keep-list.
	Volatile bool
}

func (c *Contract) nilable(name string, isRecv bool) bool {
	if isRecv && c.NilRecv {
		return true
	}
	return c.Nilable[name]
}

var clauseKeywords = map[string]bool{"effect": true, "consumes": true, "produces": true, "nosafety": true, "nopanic": true, "invariant": true, "history": true, "atsend": true, "atcall": true, "atread": true, "nilable": true, "pure": true, "defines": true, "requires": true, "captures": true, "ensures": true, "modifies": true, "loop": true, "property": true,
	"inline": true, "trusted": true, "nilrecv": true, "maypanic": true, "label": true, "replay": true, "topensures": true}

func (e *Engine) loadContracts(dir string, pkg *types.Package) error {
	paths, _ := filepath.Glob(filepath.Join(dir, "verif_contracts*.go"))
	sort.Strings(paths)
	for _, p := range paths {
		if err := e.loadContractFile(p, pkg); err != nil {
			return err
		}
	}
	return nil
}

func (e *Engine) loadContractFile(path string, pkg *types.Package) error {
	data, err := os.ReadFile(path)
	if err != nil {
		return nil
	}
	e.contractFiles = append(e.contractFiles, path)
	var cur *Contract
	var pendingContract *Contract
	register := func() error {
		c := pendingContract
		pendingContract = nil
		if c == nil {
			return nil
		}
		if old := e.contracts[c.Key]; old != nil {
			// a second contract for the same function is allowed only as a trusted,
			// property-scoped view (used at call sites inside functions of those properties)
			switch {
			case c.Trusted && len(c.Props) > 0 && !old.Trusted:
				e.addView(c)
				return nil
			case old.Trusted && len(old.Props) > 0 && !c.Trusted:
				e.addView(old)
				e.contracts[c.Key] = c
				for i, k := range e.contractOrder {
					if k == c.Key {
						e.contractOrder[i] = c.Key
					}
				}
				return nil
			}
			if old.Trusted != c.Trusted {
				return fmt.Errorf("%s:%d: duplicate contract for %s (one trusted without property scope)", path, c.lineNo, c.Key)
			}
			// two contracts for the same function (from different property files) are
			// conjoined: the function must meet both, callers may rely on both.
			if a, b := declNames(old.Decl), declNames(c.Decl); a != b && a != "" && b != "" && !strings.HasSuffix(a, "?") && !strings.HasSuffix(b, "?") {
				return fmt.Errorf("%s:%d: the second contract for %s names its parameters/results %s, the first one %s: conjoined contracts must use the same names", path, c.lineNo, c.Key, b, a)
			}
			mergeContracts(old, c)
			return nil
		}
		e.contracts[c.Key] = c
		e.contractOrder = append(e.contractOrder, c.Key)
		return nil
	}
	var curMon *Monitor
	var lastClause *Clause
	var lastMod bool
	var pendingLabel string
	var pendingPred *Pred
	lines := strings.Split(string(data), "\n")
	for ln, raw := range lines {
		s := strings.TrimSpace(raw)
		if !strings.HasPrefix(s, "//@") {
			if s == "" || strings.HasPrefix(s, "//") || strings.HasPrefix(s, "package ") {
				continue
			}
			return fmt.Errorf("%s:%d: contract file must be comment-only, found %q", path, ln+1, s)
		}
		body := strings.TrimPrefix(s, "//@")
		text := strings.TrimSpace(body)
		if text == "" {
			continue
		}
		fields := strings.Fields(text)
		kw := fields[0]
		if cur != nil {
			cur.AllText += " " + text
		}
		rest := strings.TrimSpace(strings.TrimPrefix(text, kw))
		fail := func(err error) error { return fmt.Errorf("%s:%d: %v", path, ln+1, err) }
		switch {
		case kw == "pred":
			i := strings.Index(rest, ":=")
			if i < 0 {
				return fail(fmt.Errorf("pred without :="))
			}
			hdr := strings.TrimSpace(rest[:i])
			fd, err := parseFuncHeader("func " + hdr)
			if err != nil {
				return fail(err)
			}
			p := &Pred{Name: fd.Name.Name, Text: strings.TrimSpace(rest[i+2:]), Pkg: pkg}
			for _, f := range fd.Type.Params.List {
				for _, n := range f.Names {
					p.Params = append(p.Params, n.Name)
				}
			}
			e.preds[pkg.Path()+"."+p.Name] = p
			pendingPred = p
			cur, lastClause = nil, nil
			continue
		case kw == "monitor":
			// monitor (c *Connection) stateMut guards state, other.field
			gi := strings.Index(rest, " guards ")
			if gi < 0 {
				return fail(fmt.Errorf("monitor without guards"))
			}
			hdr := strings.TrimSpace(rest[:gi])
			ci := strings.Index(hdr, ")")
			fd, err := parseFuncHeader("func " + hdr[:ci+1] + " m()")
			if err != nil {
				return fail(err)
			}
			m := &Monitor{Pkg: pkg, MutexPath: strings.TrimSpace(hdr[ci+1:])}
			m.Self = fd.Recv.List[0].Names[0].Name
			rt := fd.Recv.List[0].Type
			if st, ok := rt.(*ast.StarExpr); ok {
				rt = st.X
			}
			m.RootT = types.ExprString(rt)
			m.Name = m.RootT + "." + m.MutexPath
			for _, g := range splitTop(rest[gi+len(" guards "):], ',') {
				m.Guards = append(m.Guards, strings.TrimSpace(g))
			}
			e.monitors = append(e.monitors, m)
			curMon = m
			pendingPred, cur, lastClause = nil, nil, nil
			continue
		case kw == "local":
			// local <function key> <name> <rank> <signature...>: generated hint (locals.go)
			if len(fields) < 5 {
				return fail(fmt.Errorf("local: expected <function> <name> <rank> <signature>"))
			}
			var rk, tot int
			if _, err := fmt.Sscanf(fields[3], "%d/%d", &rk, &tot); err != nil {
				return fail(fmt.Errorf("local: rank/total: %v", err))
			}
			if e.localHints == nil {
				e.localHints = map[string]map[string]localHint{}
			}
			if e.localHints[fields[1]] == nil {
				e.localHints[fields[1]] = map[string]localHint{}
			}
			i := strings.Index(text, " "+fields[3]+" ")
			e.localHints[fields[1]][fields[2]] = localHint{Rank: rk, Total: tot, Sig: strings.TrimSpace(text[i+len(fields[3])+2:])}
			pendingPred, cur, lastClause = nil, nil, nil
			continue
		case kw == "ghostfield":
			// ghostfield NAME [sort]: per-object ghost state, read as NAME(obj)
			g := &GhostFunc{Name: fields[1], Field: true, Ret: "Int"}
			if len(fields) > 2 && fields[len(fields)-1] == "volatile" {
				g.Volatile = true
				fields = fields[:len(fields)-1]
			}
			if len(fields) > 2 {
				g.Ret = ghostSort(&ast.Ident{Name: fields[2]})
			}
			e.ghosts[g.Name] = g
			pendingPred, cur, lastClause = nil, nil, nil
			continue
		case kw == "ghost":
			// ghost func name(sorts) sort
			fd, err := parseFuncHeader(rest)
			if err != nil {
				return fail(err)
			}
			g := &GhostFunc{Name: fd.Name.Name}
			for _, f := range fd.Type.Params.List {
				n := len(f.Names)
				if n == 0 {
					n = 1
				}
				for i := 0; i < n; i++ {
					g.Params = append(g.Params, ghostSort(f.Type))
				}
			}
			g.Ret = "Int"
			g.Pkg = pkg
			if fd.Type.Results != nil && len(fd.Type.Results.List) == 1 {
				g.Ret = ghostSort(fd.Type.Results.List[0].Type)
				g.RetT = fd.Type.Results.List[0].Type
			}
			e.ghosts[g.Name] = g
			pendingPred, cur, lastClause = nil, nil, nil
			continue
		case kw == "structinv":
			// structinv (c *T) established f1, f2 : <spec over fields that only those functions write>
			ci := strings.Index(rest, ")")
			ei := strings.Index(rest, " : ")
			if ci < 0 || ei < 0 {
				return fail(fmt.Errorf("expected: structinv (x *T) established f1, f2 : <spec>"))
			}
			fd, err := parseFuncHeader("func " + rest[:ci+1] + " m()")
			if err != nil {
				return fail(err)
			}
			si := &StructInv{Pkg: pkg, Self: fd.Recv.List[0].Names[0].Name}
			rt := fd.Recv.List[0].Type
			if st, ok := rt.(*ast.StarExpr); ok {
				rt = st.X
			}
			si.TypeName = types.ExprString(rt)
			mid := strings.TrimSpace(rest[ci+1 : ei])
			mid = strings.TrimSpace(strings.TrimPrefix(mid, "established"))
			helpers := ""
			if hi := strings.Index(mid, " helpers "); hi >= 0 {
				helpers = mid[hi+len(" helpers "):]
				mid = mid[:hi]
			}
			for _, f := range splitTop(mid, ',') {
				if f = strings.TrimSpace(f); f != "" {
					si.Established = append(si.Established, f)
				}
			}
			for _, f := range splitTop(helpers, ',') {
				if f = strings.TrimSpace(f); f != "" {
					si.Helpers = append(si.Helpers, f)
				}
			}
			si.Clause = &Clause{Text: strings.TrimSpace(rest[ei+3:])}
			e.structInvs = append(e.structInvs, si)
			lastClause = si.Clause
			pendingPred, cur, curMon = nil, nil, nil
			continue
		case kw == "callers":
			// callers Iface.method : f1, f2 -- the interface method is invoked by these functions only (checked mechanically)
			ci := strings.Index(rest, " : ")
			dot := strings.Index(rest, ".")
			if ci < 0 || dot < 0 || dot > ci {
				return fail(fmt.Errorf("expected: callers Iface.method : f1, f2"))
			}
			cd := &callersDecl{Pkg: pkg, Iface: strings.TrimSpace(rest[:dot]), Method: strings.TrimSpace(rest[dot+1 : ci])}
			list := rest[ci+3:]
			if at := strings.Index(list, "@"); at >= 0 {
				cd.Props = strings.Fields(list[at+1:]) // `@ C04 C02`: also reported with these properties' checks
				list = list[:at]
			}
			for _, f := range splitTop(list, ',') {
				if f = strings.TrimSpace(f); f != "" {
					cd.Allowed = append(cd.Allowed, f)
				}
			}
			e.callersDecls = append(e.callersDecls, cd)
			pendingPred, cur, curMon, lastClause = nil, nil, nil, nil
			continue
		case kw == "writers":
			// writers T.field : f1, f2 -- the field is stored to by these functions only (checked mechanically)
			ci := strings.Index(rest, " : ")
			dot := strings.Index(rest, ".")
			if ci < 0 || dot < 0 || dot > ci {
				return fail(fmt.Errorf("expected: writers T.field : f1, f2"))
			}
			si := &StructInv{Pkg: pkg, Self: "self", TypeName: strings.TrimSpace(rest[:dot]), WritersOnly: true}
			si.Clause = &Clause{Text: "self." + strings.TrimSpace(rest[dot+1:ci]) + " == self." + strings.TrimSpace(rest[dot+1:ci])}
			for _, f := range splitTop(rest[ci+3:], ',') {
				if f = strings.TrimSpace(f); f != "" {
					si.Established = append(si.Established, f)
				}
			}
			e.structInvs = append(e.structInvs, si)
			pendingPred, cur, lastClause, curMon = nil, nil, nil, nil
			continue
		case kw == "conformance":
			// conformance Iface1, Iface2: the contracts of in-repo implementations of these
			// interfaces are checked to refine the contracts on the interface methods
			if e.conformIfaces == nil {
				e.conformIfaces = map[string]bool{}
			}
			for _, f := range splitTop(rest, ',') {
				if f = strings.TrimSpace(f); f != "" {
					e.conformIfaces[pkg.Path()+"."+f] = true
				}
			}
			pendingPred, cur, lastClause = nil, nil, nil
			continue
		case kw == "lockclass":
			// lockclass Type.mutexPath nonblocking: every critical section of this mutex must be non-blocking
			if len(fields) != 3 || fields[2] != "nonblocking" {
				return fail(fmt.Errorf("expected: lockclass Type.mutex nonblocking"))
			}
			if e.lockClasses == nil {
				e.lockClasses = map[string]bool{}
			}
			e.lockClasses[pkg.Path()+"."+fields[1]] = true
			pendingPred, cur, lastClause = nil, nil, nil
			continue
		case kw == "owned":
			// owned T ghost: every access through a *T requires ghost(obj) == 1
			if e.owned == nil {
				e.owned = map[string]string{}
			}
			e.owned[pkg.Path()+"."+fields[1]] = fields[2]
			pendingPred, cur, lastClause = nil, nil, nil
			continue
		case kw == "func" || kw == "closure" || kw == "iface" || kw == "functype" || kw == "funcfield" || kw == "chanfield" || kw == "extern":
			if err := register(); err != nil {
				return err
			}
			pendingPred = nil
			c := &Contract{Header: text, Pkg: pkg, LoopInv: map[int][]*Clause{}, LoopStep: map[int][]*Clause{}, File: path}
			switch kw {
			case "func":
				fd, err := parseFuncHeader(text)
				if err != nil {
					return fail(err)
				}
				c.Decl = fd
				c.Key = funcKey(pkg, fd, "")
			case "closure":
				// closure (recv) Name N [named params...]
				i := strings.LastIndex(rest, " ")
				fd, err := parseFuncHeader("func " + strings.TrimSpace(rest[:i]) + "()")
				if err != nil {
					return fail(err)
				}
				c.Decl = fd
				c.Key = funcKey(pkg, fd, "$"+strings.TrimSpace(rest[i+1:]))
			case "extern":
				// extern import/path.Func(params) (results): assumed contract on a function outside the repository (T3)
				if strings.HasPrefix(rest, "(") {
					// method: extern (*pkg.T).Name(params) (results); the receiver is `self`
					ri := strings.Index(rest, ").")
					j := ri + 2 + strings.Index(rest[ri+2:], "(")
					fd, err := parseFuncHeader("func (self int) " + rest[ri+2:])
					if err != nil {
						return fail(err)
					}
					c.Decl = fd
					c.Trusted = true
					c.Key = rest[:j]
				} else {
					j := strings.Index(rest, "(")
					i := strings.LastIndex(rest[:j], ".")
					fd, err := parseFuncHeader("func " + rest[i+1:])
					if err != nil {
						return fail(err)
					}
					c.Decl = fd
					c.Trusted = true
					c.Key = rest[:i] + "." + fd.Name.Name
				}
			case "chanfield":
				// chanfield Type.field(v T): channel invariant (requires: checked at send, assumed at receive),
				// consumes / produces ghost tokens
				i := strings.Index(rest, ".")
				j := strings.Index(rest, "(")
				fd, err := parseFuncHeader("func (self int) send" + rest[j:])
				if err != nil {
					return fail(err)
				}
				c.Decl = fd
				c.IsIface = true
				c.Key = "chanfield:" + pkg.Path() + "." + rest[:i] + "." + rest[i+1:j]
			case "funcfield":
				// funcfield Type.field(params) (results): contract on calls through a func-valued struct field
				i := strings.Index(rest, ".")
				j := strings.Index(rest, "(")
				fd, err := parseFuncHeader("func (self int) call" + rest[j:])
				if err != nil {
					return fail(err)
				}
				c.Decl = fd
				c.IsIface = true
				c.Key = "funcfield:" + pkg.Path() + "." + rest[:i] + "." + rest[i+1:j]
			case "functype":
				// functype Name(params) (results): contract on calls through values of a named func type
				fd, err := parseFuncHeader("func (self " + fields[1][:strings.Index(fields[1], "(")] + ") call" + rest[strings.Index(rest, "("):])
				if err != nil {
					return fail(err)
				}
				c.Decl = fd
				c.IsIface = true
				c.Key = "functype:" + pkg.Path() + "." + fields[1][:strings.Index(fields[1], "(")]
			case "iface":
				// iface [pkg.]Type.Method(params) (results)
				par := strings.Index(rest, "(")
				i := strings.LastIndex(rest[:par], ".")
				tn := rest[:i]
				recvT := tn
				if j := strings.Index(tn, "."); j >= 0 {
					recvT = tn[j+1:]
				}
				fd, err := parseFuncHeader("func (self " + recvT + ") " + rest[i+1:])
				if err != nil {
					return fail(err)
				}
				c.Decl = fd
				c.IsIface = true
				c.Key = pkg.Path() + "." + tn + "." + fd.Name.Name
				if j := strings.Index(tn, "."); j >= 0 {
					path := tn[:j]
					for _, imp := range pkg.Imports() {
						if imp.Name() == tn[:j] {
							path = imp.Path()
						}
					}
					c.Key = path + "." + tn[j+1:] + "." + fd.Name.Name
				}
			}
			pendingContract = c
			c.lineNo = ln + 1
			cur, lastClause, lastMod = c, nil, false
			curMon = nil
			continue
		}
		if !clauseKeywords[kw] {
			// continuation
			switch {
			case pendingPred != nil:
				pendingPred.Text += " " + text
			case lastMod && cur != nil:
				cur.Modifies = append(cur.Modifies, splitTop(text, ',')...)
			case lastClause != nil:
				lastClause.Text += " " + text
			default:
				return fail(fmt.Errorf("unexpected line %q", text))
			}
			continue
		}
		pendingPred = nil
		if curMon != nil && cur == nil && (kw == "invariant" || kw == "history") {
			lastClause = &Clause{Text: rest, Label: pendingLabel}
			pendingLabel = ""
			if kw == "invariant" {
				curMon.Invariant = append(curMon.Invariant, lastClause)
			} else {
				curMon.History = append(curMon.History, lastClause)
			}
			continue
		}
		if kw == "label" && cur == nil && curMon != nil {
			pendingLabel = rest
			continue
		}
		if cur == nil {
			return fail(fmt.Errorf("clause outside a contract"))
		}
		lastMod = false
		switch kw {
		case "requires", "captures":
			// captures <spec>: a closure's precondition about its captured variables;
			// checked where the closure is created, assumed at its entry
			lastClause = &Clause{Text: rest, Label: pendingLabel, AtCreation: kw == "captures"}
			cur.Requires = append(cur.Requires, lastClause)
			pendingLabel = ""
		case "ensures", "topensures":
			lastClause = &Clause{Text: rest, Label: pendingLabel, Top: kw == "topensures"}
			cur.Ensures = append(cur.Ensures, lastClause)
			pendingLabel = ""
		case "modifies":
			cur.HasMod = true
			lastClause = nil
			lastMod = true
			if rest == "all" {
				cur.ModAll = true
			} else if strings.HasPrefix(rest, "allbut ") {
				cur.ModAll = true
				cur.ModAllBut = splitTop(strings.TrimPrefix(rest, "allbut "), ',')
			} else if rest != "" && rest != "nothing" {
				cur.Modifies = append(cur.Modifies, splitTop(rest, ',')...)
			}
		case "loop":
			// loop K invariant <spec>
			if len(fields) < 3 || (fields[2] != "invariant" && fields[2] != "step" && fields[2] != "decreases" && fields[2] != "entry") {
				return fail(fmt.Errorf("expected: loop K invariant|step|entry|decreases <spec>"))
			}
			k, err := strconv.Atoi(fields[1])
			if err != nil {
				return fail(err)
			}
			i := strings.Index(rest, fields[2])
			lastClause = &Clause{Text: strings.TrimSpace(rest[i+len(fields[2]):]), Label: pendingLabel}
			if fields[2] == "decreases" {
				// termination measure: non-negative at the loop head and strictly smaller after every iteration
				m := lastClause.Text
				lastClause.Text = "0 <= prev(" + m + ") && (" + m + ") < prev(" + m + ")"
				if lastClause.Label == "" {
					lastClause.Label = "decreases " + m
				}
				cur.LoopStep[k] = append(cur.LoopStep[k], lastClause)
			} else if fields[2] == "entry" {
				if cur.LoopEntry == nil {
					cur.LoopEntry = map[int][]*Clause{}
				}
				cur.LoopEntry[k] = append(cur.LoopEntry[k], lastClause)
			} else if fields[2] == "step" {
				cur.LoopStep[k] = append(cur.LoopStep[k], lastClause)
			} else {
				cur.LoopInv[k] = append(cur.LoopInv[k], lastClause)
			}
			pendingLabel = ""
		case "property":
			for _, f := range fields[1:] {
				if f == "top" {
					continue
				}
				cur.Props = append(cur.Props, f)
			}
			lastClause = nil
		case "inline":
			cur.Inline = true
			cur.InlineExplicit = true
		case "nopanic":
			cur.NoPanic = true
		case "trusted":
			cur.Trusted = true
		case "atsend":
			// atsend <field> <spec>
			lastClause = &Clause{Text: strings.TrimSpace(strings.TrimPrefix(rest, fields[1])), Label: pendingLabel}
			cur.AtSend = append(cur.AtSend, &AtSend{Field: fields[1], Clause: lastClause})
			pendingLabel = ""
		case "atcall":
			// atcall <callee name> <spec>: checked in the caller's state just before each such call
			lastClause = &Clause{Text: strings.TrimSpace(strings.TrimPrefix(rest, fields[1])), Label: pendingLabel}
			cur.AtCall = append(cur.AtCall, &AtSend{Field: fields[1], Clause: lastClause})
			pendingLabel = ""
		case "atread":
			// atread <field name> <spec>: checked in the function's state just before each load of a struct field of that name
			lastClause = &Clause{Text: strings.TrimSpace(strings.TrimPrefix(rest, fields[1])), Label: pendingLabel}
			cur.AtRead = append(cur.AtRead, &AtSend{Field: fields[1], Clause: lastClause})
			pendingLabel = ""
		case "consumes":
			cur.Consumes = append(cur.Consumes, splitTop(rest, ',')...)
			lastClause = nil
		case "produces":
			cur.Produces = append(cur.Produces, splitTop(rest, ',')...)
			lastClause = nil
		case "effect":
			if rest != "nonblocking" && rest != "bounded" {
				return fail(fmt.Errorf("effect must be nonblocking or bounded"))
			}
			cur.Effect = rest
		case "nosafety":
			cur.NoSafety = true
		case "pure":
			cur.Pure = true
		case "defines":
			lastClause = &Clause{Text: rest, Label: pendingLabel}
			cur.Defines = append(cur.Defines, lastClause)
			pendingLabel = ""
		case "nilrecv":
			cur.NilRecv = true
		case "nilable":
			if cur.Nilable == nil {
				cur.Nilable = map[string]bool{}
			}
			for _, f := range fields[1:] {
				cur.Nilable[strings.Trim(f, ",")] = true
			}
		case "maypanic":
			cur.MayPanic = true
		case "label":
			pendingLabel = rest
		case "replay":
			cur.Replay = append(cur.Replay, rest)
			lastClause = nil
		}
	}
	return register()
}

func (e *Engine) addView(c *Contract) {
	if e.views == nil {
		e.views = map[string]map[string]*Contract{}
	}
	if e.views[c.Key] == nil {
		e.views[c.Key] = map[string]*Contract{}
	}
	for _, p := range c.Props {
		e.views[c.Key][p] = c
	}
	e.viewList = append(e.viewList, c)
}

// contractFor picks the contract a caller sees: a trusted view scoped to one of
// the caller's properties if there is one, else the primary contract.
func (e *Engine) contractFor(key string, callerProps []string) *Contract {
	if vs := e.views[key]; vs != nil {
		for _, p := range callerProps {
			if v := vs[p]; v != nil {
				return v
			}
		}
	}
	return e.contracts[key]
}

// finishContracts parses all clause texts (after continuation lines were joined).
func (e *Engine) finishContracts() error {
	var allCons []*Contract
	for _, k := range e.contractOrder {
		allCons = append(allCons, e.contracts[k])
	}
	allCons = append(allCons, e.viewList...)
	for _, c := range allCons {
		all := append(append(append([]*Clause{}, c.Requires...), c.Ensures...), c.Defines...)
		for _, cs := range c.LoopInv {
			all = append(all, cs...)
		}
		for _, cs := range c.LoopStep {
			all = append(all, cs...)
		}
		for _, cs := range c.LoopEntry {
			all = append(all, cs...)
		}
		for _, as := range c.AtSend {
			all = append(all, as.Clause)
		}
		for _, as := range c.AtCall {
			all = append(all, as.Clause)
		}
		for _, as := range c.AtRead {
			all = append(all, as.Clause)
		}
		for _, cl := range all {
			sp, err := parseSpec(cl.Text)
			if err != nil {
				return fmt.Errorf("%s: contract %s: clause %q: %v", c.File, c.Header, cl.Text, err)
			}
			cl.Expr = sp
			// "@C01,C02" suffix tags are not used; properties come from the contract
		}
		for i, m := range c.Modifies {
			c.Modifies[i] = strings.TrimSpace(m)
		}
		if !c.HasMod && len(c.Ensures) == 0 && len(c.Requires) == 0 && !c.Trusted && !c.IsIface {
			c.Inline = true
		}
	}
	for _, p := range e.preds {
		sp, err := parseSpec(p.Text)
		if err != nil {
			return fmt.Errorf("pred %s: %v", p.Name, err)
		}
		p.Body = sp
	}
	return nil
}

func ghostSort(e ast.Expr) string {
	switch types.ExprString(e) {
	case "bytes":
		return "bytes"
	case "bool":
		return "Bool"
	case "string":
		return "String"
	}
	return "Int"
}

func parseFuncHeader(h string) (*ast.FuncDecl, error) {
	src := "package p\n" + h + "\n"
	f, err := parser.ParseFile(token.NewFileSet(), "", src, 0)
	if err != nil {
		return nil, fmt.Errorf("bad header %q: %v", h, err)
	}
	for _, d := range f.Decls {
		if fd, ok := d.(*ast.FuncDecl); ok {
			return fd, nil
		}
	}
	return nil, fmt.Errorf("no func in %q", h)
}

// funcKey builds the ssa.Function.String() form.
func funcKey(pkg *types.Package, fd *ast.FuncDecl, suffix string) string {
	if fd.Recv != nil && len(fd.Recv.List) == 1 {
		t := fd.Recv.List[0].Type
		if st, ok := t.(*ast.StarExpr); ok {
			return "(*" + pkg.Path() + "." + types.ExprString(st.X) + ")." + fd.Name.Name + suffix
		}
		return "(" + pkg.Path() + "." + types.ExprString(t) + ")." + fd.Name.Name + suffix
	}
	name := fd.Name.Name
	if name == "init" {
		name = "init#1" // the (first) source-level init function of the package
	}
	return pkg.Path() + "." + name + suffix
}

// splitTop splits on sep at nesting depth 0.
func splitTop(s string, sep byte) []string {
	var out []string
	depth := 0
	inStr := false
	start := 0
	for i := 0; i < len(s); i++ {
		c := s[i]
		switch {
		case inStr:
			if c == '\\' {
				i++
			} else if c == '"' {
				inStr = false
			}
		case c == '"':
			inStr = true
		case c == '(' || c == '[' || c == '{':
			depth++
		case c == ')' || c == ']' || c == '}':
			depth--
		case c == sep && depth == 0:
			out = append(out, strings.TrimSpace(s[start:i]))
			start = i + 1
		}
	}
	out = append(out, strings.TrimSpace(s[start:]))
	return out
}

// mergeContracts folds contract c into old (conjunction of contracts).
// declNames: the parameter and (named) result names of a contract header.
func declNames(d *ast.FuncDecl) string {
	if d == nil || d.Type == nil {
		return ""
	}
	var out []string
	list := func(fl *ast.FieldList) {
		if fl == nil {
			return
		}
		for _, f := range fl.List {
			if len(f.Names) == 0 {
				out = append(out, "_")
			}
			for _, n := range f.Names {
				out = append(out, n.Name)
			}
		}
	}
	list(d.Type.Params)
	out = append(out, "->")
	if d.Type.Results != nil {
		named := false
		for _, f := range d.Type.Results.List {
			if len(f.Names) > 0 {
				named = true
			}
		}
		if named {
			list(d.Type.Results)
		} else {
			out = append(out, "?")
		}
	}
	return strings.Join(out, ",")
}

func mergeContracts(old, c *Contract) {
	old.Header += " +merged(" + filepath.Base(c.File) + ")"
	old.AllText += " " + c.AllText
	old.Requires = append(old.Requires, c.Requires...)
	old.Ensures = append(old.Ensures, c.Ensures...)
	old.Defines = append(old.Defines, c.Defines...)
	old.AtSend = append(old.AtSend, c.AtSend...)
	old.AtCall = append(old.AtCall, c.AtCall...)
	old.AtRead = append(old.AtRead, c.AtRead...)
	old.Consumes = append(old.Consumes, c.Consumes...)
	old.Produces = append(old.Produces, c.Produces...)
	for k, v := range c.LoopInv {
		old.LoopInv[k] = append(old.LoopInv[k], v...)
	}
	for k, v := range c.LoopStep {
		old.LoopStep[k] = append(old.LoopStep[k], v...)
	}
	for k, v := range c.LoopEntry {
		if old.LoopEntry == nil {
			old.LoopEntry = map[int][]*Clause{}
		}
		old.LoopEntry[k] = append(old.LoopEntry[k], v...)
	}
	for _, p := range c.Props {
		dup := false
		for _, q := range old.Props {
			if p == q {
				dup = true
			}
		}
		if !dup {
			old.Props = append(old.Props, p)
		}
	}
	for k := range c.Nilable {
		if old.Nilable == nil {
			old.Nilable = map[string]bool{}
		}
		if !old.Nilable[k] {
			// a parameter is nilable only if both contracts allow it: keep old's view
			_ = k
		}
	}
	// frames: each contract's frame holds on its own, so the conjunction allows
	// only what BOTH allow to change (the merged contract is what gets verified).
	explicit := func(x *Contract) bool { return x.HasMod && !x.ModAll }
	switch {
	case !c.HasMod:
		// no frame clause in c: keep old's frame
	case !old.HasMod:
		old.HasMod, old.ModAll, old.ModAllBut, old.Modifies = c.HasMod, c.ModAll, c.ModAllBut, c.Modifies
	case old.ModAll && c.ModAll:
		// `all` / `allbut K1` with `all` / `allbut K2`: keep K1 u K2
		for _, b := range c.ModAllBut {
			dup := false
			for _, a := range old.ModAllBut {
				if strings.TrimSpace(a) == strings.TrimSpace(b) {
					dup = true
				}
			}
			if !dup {
				old.ModAllBut = append(old.ModAllBut, b)
			}
		}
	case explicit(old) && c.ModAll:
		// explicit targets are the tighter frame; the other contract's keep-list is still checked
		old.AlsoKeep = append(old.AlsoKeep, c.ModAllBut...)
	case old.ModAll && explicit(c):
		old.AlsoKeep = append(old.AlsoKeep, old.ModAllBut...)
		old.ModAll, old.ModAllBut, old.Modifies = false, nil, c.Modifies
	default:
		// two explicit target lists: the intersection is not computed; a target
		// listed by either may change (each list alone is still checked by the
		// function's own verification only if it is the sole contract)
		old.Modifies = append(old.Modifies, c.Modifies...)
	}
	if old.Effect == "" {
		old.Effect = c.Effect
	}
	old.Pure = old.Pure || c.Pure
	old.NoSafety = old.NoSafety || c.NoSafety
	old.NoPanic = old.NoPanic || c.NoPanic
	old.MayPanic = old.MayPanic || c.MayPanic
	old.InlineExplicit = old.InlineExplicit || c.InlineExplicit
	old.Inline = old.InlineExplicit
}
