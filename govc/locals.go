package main

// Rename tolerance for locals named in contracts.
//
// Loop invariants, `atcall`/`atread`/`atsend` clauses and `defines` clauses may
// name local variables of the function. A harmless rename of such a local would
// make the clause unevaluable. To survive it, every local a clause names is
// described, when the contracts are written, by a *definition signature* taken
// from the code (its type and the kinds of instructions that define it: which
// callee's result, which field it was loaded from, a range variable, a phi ...)
// and kept as a `local` hint line in a generated, comment-only contract file
// (`govc -gen-locals`). When a clause later names a local the function no longer
// has, the local of the current code with the same signature (and the same rank
// among equal signatures) is taken instead, and the rebinding is reported as an
// assumption. Loop invariants are proof hints that are checked, so any binding
// under which every obligation discharges is a proof; for `atcall`/`atread`
// clauses the rebinding is a (reported) identification of the variable by how
// it is computed rather than by what it is called.

import (
	"fmt"
	"go/ast"
	"go/token"
	"go/types"
	"os"
	"path/filepath"
	"sort"
	"strings"

	"golang.org/x/tools/go/ssa"
)

type localHint struct {
	Rank  int
	Total int // locals of the function with this signature when the hint was generated
	Sig   string
}

type localInfo struct {
	name string
	pos  token.Pos
	sig  string
}

// codeLocals: the source-level locals of fn (value DebugRefs), with signatures.
func codeLocals(fn *ssa.Function) []localInfo {
	type acc struct {
		pos  token.Pos
		t    string
		defs map[string]bool
	}
	m := map[string]*acc{}
	qual := func(p *types.Package) string { return p.Name() }
	for _, b := range fn.Blocks {
		for _, ins := range b.Instrs {
			d, ok := ins.(*ssa.DebugRef)
			if !ok || d.IsAddr {
				continue
			}
			id, ok := d.Expr.(*ast.Ident)
			if !ok || id.Name == "_" {
				continue
			}
			if v, ok := d.Object().(*types.Var); !ok || v.IsField() || v.Parent() == nil || v.Parent() == v.Pkg().Scope() {
				continue // a field, a package-level variable, a function ...: not a local
			}
			switch x := d.X.(type) {
			case *ssa.Parameter, *ssa.Function, *ssa.Global, *ssa.FreeVar:
				continue // not a local
			case *ssa.UnOp:
				if _, isG := x.X.(*ssa.Global); isG && x.Op == token.MUL {
					continue // a package-level variable
				}
			}
			a := m[id.Name]
			if a == nil {
				a = &acc{pos: id.Pos(), t: types.TypeString(d.X.Type(), qual), defs: map[string]bool{}}
				m[id.Name] = a
			}
			if id.Pos() < a.pos {
				a.pos = id.Pos()
			}
			a.defs[defKind(d.X, 0)] = true
		}
	}
	var out []localInfo
	for n, a := range m {
		var ds []string
		for d := range a.defs {
			ds = append(ds, d)
		}
		sort.Strings(ds)
		out = append(out, localInfo{name: n, pos: a.pos, sig: a.t + " <- " + strings.Join(ds, "|")})
	}
	sort.Slice(out, func(i, j int) bool { return out[i].pos < out[j].pos })
	return out
}

// defKind: a rename-independent description of the instruction defining v.
func defKind(v ssa.Value, depth int) string {
	if depth > 2 {
		return "..."
	}
	switch t := v.(type) {
	case *ssa.Call:
		com := t.Common()
		if com.IsInvoke() {
			return "call:" + com.Method.Name()
		}
		if sc := com.StaticCallee(); sc != nil {
			return "call:" + sc.Name()
		}
		if b, ok := com.Value.(*ssa.Builtin); ok {
			return "builtin:" + b.Name()
		}
		return "call:dyn"
	case *ssa.Extract:
		return fmt.Sprintf("extract%d(%s)", t.Index, defKind(t.Tuple, depth+1))
	case *ssa.Phi:
		return "phi"
	case *ssa.Const:
		return "const"
	case *ssa.MakeSlice:
		return "makeslice"
	case *ssa.MakeMap:
		return "makemap"
	case *ssa.MakeInterface:
		return "makeiface"
	case *ssa.MakeClosure:
		return "closure"
	case *ssa.Alloc:
		return "alloc"
	case *ssa.UnOp:
		if t.Op == token.MUL {
			if fa, ok := t.X.(*ssa.FieldAddr); ok {
				if st, ok := fa.X.Type().Underlying().(*types.Pointer); ok {
					if s, ok := st.Elem().Underlying().(*types.Struct); ok {
						return "load:" + s.Field(fa.Field).Name()
					}
				}
			}
			if _, ok := t.X.(*ssa.IndexAddr); ok {
				return "load:index"
			}
			if g, ok := t.X.(*ssa.Global); ok {
				return "load:global:" + g.Name()
			}
			return "load"
		}
		return "unop:" + t.Op.String()
	case *ssa.BinOp:
		return "binop:" + t.Op.String()
	case *ssa.Next:
		return "next"
	case *ssa.Select:
		return "select"
	case *ssa.TypeAssert:
		return "typeassert"
	case *ssa.Lookup:
		return "lookup"
	case *ssa.Slice:
		return "slice"
	case *ssa.Convert, *ssa.ChangeType, *ssa.ChangeInterface:
		return "conv"
	case *ssa.Field:
		return "field"
	case *ssa.Index:
		return "index"
	case *ssa.FieldAddr:
		return "fieldaddr"
	case *ssa.IndexAddr:
		return "indexaddr"
	case *ssa.FreeVar:
		return "freevar:" + t.Name()
	case *ssa.Global:
		return "global:" + t.Name()
	case *ssa.Function:
		return "func:" + t.Name()
	}
	return fmt.Sprintf("%T", v)
}

// clauseIdents: the identifiers a contract's clauses use outside selector
// position (over-approximate: spec helpers and globals are included, the
// caller intersects with the function's locals).
func clauseIdents(c *Contract) map[string]bool {
	out := map[string]bool{}
	add := func(text string) {
		// the clause texts are parsed elsewhere; a lexical scan is enough here
		i := 0
		for i < len(text) {
			ch := text[i]
			if ch == '"' {
				j := i + 1
				for j < len(text) && text[j] != '"' {
					if text[j] == '\\' {
						j++
					}
					j++
				}
				i = j + 1
				continue
			}
			if ch == '_' || (ch >= 'a' && ch <= 'z') || (ch >= 'A' && ch <= 'Z') {
				j := i
				for j < len(text) && (text[j] == '_' || (text[j] >= 'a' && text[j] <= 'z') || (text[j] >= 'A' && text[j] <= 'Z') || (text[j] >= '0' && text[j] <= '9')) {
					j++
				}
				if i == 0 || text[i-1] != '.' {
					out[text[i:j]] = true
				}
				i = j
				continue
			}
			i++
		}
	}
	for _, cs := range c.LoopInv {
		for _, cl := range cs {
			add(cl.Text)
		}
	}
	for _, cs := range c.LoopStep {
		for _, cl := range cs {
			add(cl.Text)
		}
	}
	for _, cs := range c.LoopEntry {
		for _, cl := range cs {
			add(cl.Text)
		}
	}
	for _, as := range append(append(append([]*AtSend{}, c.AtCall...), c.AtRead...), c.AtSend...) {
		add(as.Clause.Text)
	}
	for _, cl := range c.Defines {
		add(cl.Text)
	}
	return out
}

func paramAndResultNames(c *Contract, fn *ssa.Function) map[string]bool {
	out := map[string]bool{}
	for _, p := range fn.Params {
		out[p.Name()] = true
	}
	for _, fv := range fn.FreeVars {
		out[fv.Name()] = true
	}
	if c.Decl != nil {
		for _, n := range strings.Split(declNames(c.Decl), ",") {
			out[strings.TrimSpace(n)] = true
		}
	}
	return out
}

// genLocals writes, per package directory, the generated hint file.
func (e *Engine) genLocals(repo string) error {
	perDir := map[string][]string{}
	pkgName := map[string]string{}
	keys := append([]string{}, e.contractOrder...)
	sort.Strings(keys)
	for _, k := range keys {
		c := e.contracts[k]
		fn := e.funcs[k]
		if c == nil || fn == nil || c.IsIface || c.Trusted || len(fn.Blocks) == 0 || fn.Pkg == nil {
			continue
		}
		ids := clauseIdents(c)
		skip := paramAndResultNames(c, fn)
		locals := codeLocals(fn)
		rank := map[string]int{}
		total := map[string]int{}
		for _, l := range locals {
			total[l.sig]++
		}
		var lines []string
		for _, l := range locals {
			r := rank[l.sig]
			rank[l.sig]++
			if !ids[l.name] || skip[l.name] {
				continue
			}
			lines = append(lines, fmt.Sprintf("//@ local %s %s %d/%d %s", k, l.name, r, total[l.sig], l.sig))
		}
		if len(lines) == 0 {
			continue
		}
		dir := filepath.Dir(e.prog.Fset.Position(fn.Pos()).Filename)
		perDir[dir] = append(perDir[dir], lines...)
		pkgName[dir] = fn.Pkg.Pkg.Name()
	}
	// remove stale generated files first
	old, _ := filepath.Glob(filepath.Join(repo, "**", "verif_contracts_zlocals.go"))
	_ = old
	for dir, lines := range perDir {
		var b strings.Builder
		b.WriteString("//go:build verif\n\npackage " + pkgName[dir] + "\n\n")
		b.WriteString("// GENERATED by `govc -gen-locals` -- do not edit. One line per local variable\n")
		b.WriteString("// that a contract clause names: its definition signature in the code the\n")
		b.WriteString("// contracts were written against (type <- kinds of its defining instructions)\n")
		b.WriteString("// and its rank among locals of the function with the same signature. If a\n")
		b.WriteString("// clause names a local the function no longer has (a rename), the verifier\n")
		b.WriteString("// takes the local with the same signature and rank instead and reports it.\n\n")
		for _, l := range lines {
			b.WriteString(l + "\n")
		}
		if err := os.WriteFile(filepath.Join(dir, "verif_contracts_zlocals.go"), []byte(b.String()), 0o644); err != nil {
			return err
		}
	}
	return nil
}

// rebindLocals: for the function of fc, map every hinted local that the code
// no longer has to the current local with the same signature and rank.
func (fc *FnCtx) rebindLocals() {
	hints := fc.eng.localHints[fc.fn.String()]
	if len(hints) == 0 {
		return
	}
	locals := codeLocals(fc.fn)
	have := map[string]bool{}
	for _, l := range locals {
		have[l.name] = true
	}
	var missing []string
	for n := range hints {
		if !have[n] {
			missing = append(missing, n)
		}
	}
	if len(missing) == 0 {
		return
	}
	sort.Strings(missing)
	if os.Getenv("GOVC_DEBUG_LOCALS") != "" {
		for _, l := range locals {
			fmt.Fprintf(os.Stderr, "local %s: %s :: %s\n", fc.fn.Name(), l.name, l.sig)
		}
		fmt.Fprintf(os.Stderr, "missing %v\n", missing)
	}
	// current locals grouped by signature, in source order; names that the
	// hints still find in the code are taken
	taken := map[string]bool{}
	for n := range hints {
		if have[n] {
			taken[n] = true
		}
	}
	bySig := map[string][]string{}
	for _, l := range locals {
		bySig[l.sig] = append(bySig[l.sig], l.name)
	}
	for _, n := range missing {
		h := hints[n]
		cands := bySig[h.Sig]
		if os.Getenv("GOVC_DEBUG_LOCALS") != "" {
			fmt.Fprintf(os.Stderr, "hint %s: %q rank %d/%d cands %v\n", n, h.Sig, h.Rank, h.Total, cands)
		}
		// strict: the function must still have as many locals of this signature as
		// when the hint was made, and the one at the hinted rank must be unclaimed
		pick := ""
		if len(cands) == h.Total && h.Rank < len(cands) && !taken[cands[h.Rank]] {
			pick = cands[h.Rank]
		}
		if pick == "" {
			continue
		}
		taken[pick] = true
		if fc.rebind == nil {
			fc.rebind = map[string]string{}
		}
		fc.rebind[n] = pick
		fc.assumption("A-RENAME: contract clauses name the local `" + n + "`, which the function no longer has; the local `" + pick + "` with the same definition signature (" + h.Sig + ") is used instead")
	}
}
