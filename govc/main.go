package main

import (
	"encoding/json"
	"flag"
	"fmt"
	"os"
	"regexp"
	"sort"
	"strings"
	"sync"
	"time"
)

var defaultPkgs = []string{repoMod, repoMod + "/typed", repoMod + "/thrift", repoMod + "/thrift/arg2", repoMod + "/http", repoMod + "/tnet", repoMod + "/internal/argreader", repoMod + "/relay"}

type Report struct {
	MonitorWriters map[string][]string
	Results        []*FnResult
	WallS          float64
	LoadS          float64
	Errors         []string
	UncoveredImpls []string // in-repo implementations of contracted interface methods that have no verified contract of their own (the interface contract is assumed for them)
}

func main() {
	repo := flag.String("repo", "/repo", "repository root")
	props := flag.String("props", "", "comma-separated property ids (empty: all)")
	fnRe := flag.String("fn", "", "regexp over function names (ssa String form); functions need not have contracts")
	out := flag.String("json", "", "write JSON report here")
	work := flag.String("work", "", "work directory for SMT files")
	timeout := flag.Int("timeout", 10000, "per-obligation solver timeout (ms)")
	retryTimeout := flag.Int("retry-timeout", 0, "ms per obligation for the single-obligation second opinions (default: same as -timeout)")
	jobs := flag.Int("j", 14, "parallel functions")
	conform := flag.Bool("conform", false, "run the interface-conformance jobs of ALL contracted interfaces (default: only those named in `conformance` directives)")
	verbose := flag.Bool("v", false, "print every obligation")
	keep := flag.Bool("keep", false, "keep SMT files")
	thorough := flag.Bool("thorough", false, "thorough tier: consult all back ends for every obligation")
	seed := flag.Int("seed", 0, "solver random seed (thorough tier)")
	genLocals := flag.Bool("gen-locals", false, "write the generated local-variable hint files (verif_contracts_zlocals.go) into the repository and exit")
	debug := flag.String("debug", "", "keep SMT and solver output for failing obligations whose name contains this")
	flag.Parse()

	t0 := time.Now()
	eng, err := loadEngine(*repo, defaultPkgs)
	if err != nil {
		fmt.Fprintln(os.Stderr, "govc: load:", err)
		os.Exit(2)
	}
	eng.timeoutMs = *timeout
	eng.retryMs = *retryTimeout
	eng.debug = *debug
	eng.thorough = *thorough
	eng.seed = *seed
	solverSeed = *seed
	if *debug != "" {
		*keep = true
	}
	if *work == "" {
		d, _ := os.MkdirTemp("", "govc")
		*work = d
	}
	os.MkdirAll(*work, 0o755)
	eng.workDir = *work
	if !*keep {
		defer os.RemoveAll(*work)
	}
	loadS := time.Since(t0).Seconds()
	if *genLocals {
		if err := eng.genLocals(*repo); err != nil {
			fmt.Fprintln(os.Stderr, "govc: gen-locals:", err)
			os.Exit(2)
		}
		return
	}

	want := map[string]bool{}
	for _, p := range strings.Split(*props, ",") {
		if p != "" {
			want[p] = true
		}
	}
	var targets []string
	rep := &Report{LoadS: loadS, MonitorWriters: eng.monitorWriters()}
	if *fnRe != "" {
		re := regexp.MustCompile(*fnRe)
		for name, fn := range eng.funcs {
			if re.MatchString(name) && len(fn.Blocks) > 0 {
				targets = append(targets, name)
			}
		}
	} else {
		for _, c := range append(append([]*Contract{}, eng.viewList...), func() []*Contract {
			var cs []*Contract
			for _, k := range eng.contractOrder {
				cs = append(cs, eng.contracts[k])
			}
			return cs
		}()...) {
			if c.Stale == "" {
				continue
			}
			sel := len(want) == 0 || len(c.Props) == 0
			for _, p := range c.Props {
				if want[p] {
					sel = true
				}
			}
			if sel {
				rep.Errors = append(rep.Errors, "stale-contract: "+c.Key+": "+c.Stale+" ("+c.Header+")")
			}
		}
		for _, wi := range eng.writerIssues {
			sel := len(want) == 0 || len(wi.props) == 0
			for _, p := range wi.props {
				if want[p] {
					sel = true
				}
			}
			if sel {
				rep.Errors = append(rep.Errors, "undeclared-writer: "+wi.msg)
			}
		}
		for _, k := range eng.contractOrder {
			c := eng.contracts[k]
			if c.IsIface || c.Trusted {
				continue
			}
			sel := len(want) == 0
			for _, p := range c.Props {
				if want[p] {
					sel = true
				}
			}
			if !sel {
				continue
			}
			if eng.funcs[k] == nil {
				rep.Errors = append(rep.Errors, "stale-contract: no function "+k+" ("+c.Header+")")
				continue
			}
			targets = append(targets, k)
		}
	}
	sort.Strings(targets)
	var cjobs []*conformJob
	if *fnRe == "" || *conform {
		var uncovered []string
		cjobs, uncovered = eng.conformJobs(want, *conform)
		sort.Strings(uncovered)
		rep.UncoveredImpls = uncovered
		if *fnRe != "" {
			re := regexp.MustCompile(*fnRe)
			var keep []*conformJob
			for _, j := range cjobs {
				if re.MatchString(j.fn.String()) {
					keep = append(keep, j)
				}
			}
			cjobs = keep
		}
	}
	results := make([]*FnResult, len(targets)+len(cjobs))
	var wg sync.WaitGroup
	sem := make(chan struct{}, *jobs)
	for i, name := range targets {
		wg.Add(1)
		go func(i int, name string) {
			defer wg.Done()
			sem <- struct{}{}
			defer func() { <-sem }()
			results[i] = eng.runFn(eng.funcs[name])
		}(i, name)
	}
	for i, j := range cjobs {
		wg.Add(1)
		go func(i int, j *conformJob) {
			defer wg.Done()
			sem <- struct{}{}
			defer func() { <-sem }()
			results[len(targets)+i] = eng.runJob(j.fn, j)
		}(i, j)
	}
	wg.Wait()
	rep.Results = results
	rep.WallS = time.Since(t0).Seconds()

	nObl, nOK := 0, 0
	for _, r := range results {
		if r.Err != "" {
			fmt.Printf("ERROR %s: %s\n", r.Short, r.Err)
		}
		for _, o := range r.Obls {
			nObl++
			if o.Status == "unsat" {
				nOK++
				if *verbose {
					fmt.Printf("  ok   %s [%s %.2fs]\n", o.Name, o.Backend, o.TimeS)
				}
			} else {
				fmt.Printf("  FAIL %s: %s [%s]\n", o.Name, o.Status, o.Backend)
				if *verbose && o.Model != "" {
					fmt.Println(indent(o.Model))
				}
			}
		}
	}
	for _, e := range rep.Errors {
		fmt.Println("ERROR", e)
	}
	fmt.Printf("govc: %d functions, %d obligations, %d discharged, load %.1fs, total %.1fs\n", len(results), nObl, nOK, loadS, rep.WallS)
	if *out != "" {
		b, _ := json.MarshalIndent(rep, "", " ")
		os.WriteFile(*out, b, 0o644)
	}
}

func indent(s string) string {
	return "      " + strings.ReplaceAll(strings.TrimSpace(s), "\n", "\n      ")
}
