package main

import (
	"golang.org/x/tools/go/ssa"
)

// Monitor declarations (filled in by the contract parser; see DESIGN §3.7).
type Monitor struct {
	Name string
}

func (fc *FnCtx) lockOp(fr *Frame, st *State, reach string, op string, mu Val, call ssa.CallInstruction) {
	fc.assumption("A-LOCK: mutex operations have no effect on the sequential state (monitor invariants are declared separately)")
}

func (fc *FnCtx) guardedAccess(fr *Frame, st *State, reach string, a *Addr, write bool) {}
