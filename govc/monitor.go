package main

// Monitors: data guarded by a mutex. Declared in contract files:
//
//   //@ monitor (c *Connection) stateMut guards state
//   //@   invariant 1 <= c.state && c.state <= 4
//   //@   history   c.state >= old(c.state)
//
// Thread-modular semantics (sound for every interleaving if every writer of a
// guarded field is verified): acquiring the lock havocs the guarded fields and
// assumes the invariant (other threads may have run); releasing a write lock
// asserts the invariant and the two-state history clause relative to the
// values seen at acquisition; any access to a guarded field while the lock is
// not held is an obligation failure (#guarded).

import (
	"fmt"
	"go/types"
	"os"
	"strings"

	"golang.org/x/tools/go/ssa"
	"sort"
)

type Monitor struct {
	Name      string // "Connection.stateMut"
	Self      string // receiver variable name in clauses
	RootT     string // type name (unqualified) of the owning struct
	Pkg       *types.Package
	MutexPath string   // field path of the mutex inside the struct ("stateMut", "mutable.RWMutex", "RWMutex")
	Guards    []string // guarded field paths ("state", "mutable.state")
	Invariant []*Clause
	History   []*Clause
	rootType  types.Type
}

func (e *Engine) resolveMonitors() error {
	for _, m := range e.monitors {
		obj := m.Pkg.Scope().Lookup(m.RootT)
		tn, ok := obj.(*types.TypeName)
		if !ok {
			return fmt.Errorf("monitor %s: unknown type %s", m.Name, m.RootT)
		}
		m.rootType = tn.Type()
		for _, cl := range append(append([]*Clause{}, m.Invariant...), m.History...) {
			sp, err := parseSpec(cl.Text)
			if err != nil {
				return fmt.Errorf("monitor %s: %v", m.Name, err)
			}
			cl.Expr = sp
		}
	}
	return nil
}

// monitorForMutex finds the monitor whose mutex is at address a.
func (fc *FnCtx) monitorForMutex(a *Addr) *Monitor {
	if a.Kind != AObj {
		return nil
	}
	p, _ := pathName(a.Root, a.Path)
	for _, m := range fc.eng.monitors {
		if types.Identical(a.Root, m.rootType) && (p == m.MutexPath || p == m.MutexPath+".RWMutex" || p == m.MutexPath+".Mutex") {
			return m
		}
	}
	return nil
}

func (fc *FnCtx) monitorsGuarding(a *Addr) []*Monitor {
	if a.Kind != AObj || len(a.Path) == 0 {
		return nil
	}
	p, _ := pathName(a.Root, a.Path)
	var out []*Monitor
	for _, m := range fc.eng.monitors {
		if !types.Identical(a.Root, m.rootType) {
			continue
		}
		for _, g := range m.Guards {
			if p == g || strings.HasPrefix(p, g+".") {
				out = append(out, m)
			}
		}
	}
	return out
}

func lockKey(m *Monitor, base string) string { return m.Name + "@" + base }

// lockHeld: the monitor lock of the object denoted by base is held. Lock states
// are recorded per reference TERM; the same object may be denoted by another
// term, so every recorded lock of the monitor whose reference equals base counts.
func (fc *FnCtx) lockHeld(st *State, m *Monitor, base string) string {
	if t, ok := st.locks[lockKey(m, base)]; ok {
		return t
	}
	pre := m.Name + "@"
	var keys []string
	for k := range st.locks {
		if strings.HasPrefix(k, pre) {
			keys = append(keys, k)
		}
	}
	sort.Strings(keys)
	var alts []string
	for _, k := range keys {
		alts = append(alts, tAnd(tEq(k[len(pre):], base), st.locks[k]))
	}
	if len(alts) == 0 {
		return "false"
	}
	return tOr(alts...)
}

func (fc *FnCtx) selfVal(m *Monitor, base string) Val {
	return Val{K: KAddr, T: types.NewPointer(m.rootType), A: &Addr{Kind: AObj, Base: base, Root: m.rootType, T: m.rootType}}
}

func (fc *FnCtx) guardAddrs(m *Monitor, base string) []*Addr {
	var out []*Addr
	for _, g := range m.Guards {
		a := &Addr{Kind: AObj, Base: base, Root: m.rootType, T: m.rootType}
		t := m.rootType
		ok := true
		for _, name := range strings.Split(g, ".") {
			st := structOf(t)
			if st == nil {
				ok = false
				break
			}
			found := false
			for i := 0; i < st.NumFields(); i++ {
				if st.Field(i).Name() == name {
					a.Path = append(a.Path, i)
					t = st.Field(i).Type()
					found = true
					break
				}
			}
			if !found {
				ok = false
				break
			}
		}
		if !ok {
			unsup("monitor %s: cannot resolve guarded field %s", m.Name, g)
		}
		a.T = t
		out = append(out, a)
	}
	return out
}

// lockClassKey: "pkg.Type.path" of a mutex address inside a struct.
func lockClassKey(a *Addr) string {
	if a.Kind != AObj {
		return ""
	}
	n := namedOf(a.Root)
	if n == nil || n.Obj().Pkg() == nil {
		return ""
	}
	p, _ := pathName(a.Root, a.Path)
	return n.Obj().Pkg().Path() + "." + n.Obj().Name() + "." + p
}

// blockingOp: an operation that may block is only allowed while no
// non-blocking-class lock is held, and not at all in `effect nonblocking` functions.
func (fc *FnCtx) blockingOp(fr *Frame, st *State, reach, what string) {
	if fc.quiet > 0 {
		return
	}
	keys := make([]string, 0, len(st.nbLocks))
	for k := range st.nbLocks {
		if !strings.HasPrefix(k, "W|") {
			keys = append(keys, k)
		}
	}
	sort.Strings(keys)
	for _, k := range keys {
		fc.oblige(fr, "blocking", what+" while holding "+k[:strings.LastIndex(k, "@")]+" (its critical sections must not block)", reach, tNot(st.nbLocks[k]), false, nil)
	}
	if fc.con != nil && fc.con.Effect == "nonblocking" {
		fc.oblige(fr, "blocking", what+" in a function declared non-blocking", reach, "false", false, nil)
	}
}

// unboundedWait: in a function declared `effect bounded` every wait must be
// bounded by a context (a select with a ctx.Done() case) or be on a lock whose
// critical sections never block.
func (fc *FnCtx) unboundedWait(fr *Frame, reach, what string) {
	if fc.quiet > 0 || fc.con == nil || fc.con.Effect != "bounded" {
		return
	}
	fc.oblige(fr, "unbounded-wait", what+" is not bounded by a context", reach, "false", false, nil)
}

func (fc *FnCtx) lockOp(fr *Frame, st *State, reach string, op string, mu Val, call ssa.CallInstruction) {
	if mu.K != KAddr {
		return
	}
	if ck := lockClassKey(mu.A); ck != "" {
		acquire := strings.HasSuffix(op, ".Lock") || strings.HasSuffix(op, ".RLock")
		if fc.eng.lockClasses[ck] {
			if st.nbLocks == nil {
				st.nbLocks = map[string]string{}
			}
			if acquire {
				st.nbLocks[ck+"@"+mu.A.Base] = "true"
			} else {
				st.nbLocks[ck+"@"+mu.A.Base] = "false"
			}
			// write-lock state (for `wlocked(x)`): changed by Lock/Unlock only
			if strings.HasSuffix(op, ".Lock") {
				st.nbLocks["W|"+ck+"@"+mu.A.Base] = "true"
			} else if strings.HasSuffix(op, ".Unlock") {
				st.nbLocks["W|"+ck+"@"+mu.A.Base] = "false"
			}
		} else if acquire {
			// acquiring a lock whose sections may block is itself a blocking operation
			fc.blockingOp(fr, st, reach, "acquiring "+ck)
			fc.unboundedWait(fr, reach, "acquiring "+ck[strings.LastIndex(ck, "/")+1:]+" (a lock whose sections may block)")
		}
	}
	m := fc.monitorForMutex(mu.A)
	if m == nil {
		fc.assumption("A-LOCK: operations on mutexes without a declared monitor have no effect on the sequential state")
		return
	}
	base := mu.A.Base
	key := lockKey(m, base)
	acquire := strings.HasSuffix(op, ".Lock") || strings.HasSuffix(op, ".RLock")
	write := strings.HasSuffix(op, ".Lock") || strings.HasSuffix(op, ".Unlock")
	self := fc.selfVal(m, base)
	vars := map[string]Val{m.Self: self}
	if acquire {
		// other threads may have changed the guarded data: havoc, then assume the invariant
		fc.inAcquire = true
		defer func() { fc.inAcquire = false }()
		for _, a := range fc.guardAddrs(m, base) {
			if _, isMap := a.T.Underlying().(*types.Map); isMap {
				// the map reference itself is stable; its contents are havocked
				mv := fc.load(st, a)
				fc.havocMap(st, mv, a.T.Underlying().(*types.Map))
				continue
			}
			fc.havocAddr(st, a)
		}
		for _, cl := range m.Invariant {
			env := fc.specEnv(st, nil, vars, m.Pkg, nil, cl.Text)
			fc.sc.assume(tImp(reach, env.evalBool(cl.Expr)))
		}
		st.locks[key] = "true"
		if write {
			if st.lockSnap == nil {
				st.lockSnap = map[string]*State{}
			}
			st.lockSnap[key] = st.clone()
		}
		return
	}
	// release
	if write {
		for _, cl := range m.Invariant {
			env := fc.specEnv(st, nil, vars, m.Pkg, nil, cl.Text)
			fc.oblige(fr, "monitor-invariant", m.Name+": "+clauseName(cl), reach, env.evalBool(cl.Expr), env.quant, nil)
		}
		if snap := st.lockSnap[key]; snap != nil {
			for _, cl := range m.History {
				env := fc.specEnv(st, snap, vars, m.Pkg, nil, cl.Text)
				fc.oblige(fr, "monitor-history", m.Name+": "+clauseName(cl), reach, env.evalBool(cl.Expr), env.quant, nil)
			}
		} else if len(m.History) > 0 {
			// unlock of a lock acquired by the caller (requires locked(...)): history relative to function entry
			for _, cl := range m.History {
				env := fc.specEnv(st, fc.oldSt, vars, m.Pkg, nil, cl.Text)
				fc.oblige(fr, "monitor-history", m.Name+": "+clauseName(cl), reach, env.evalBool(cl.Expr), env.quant, nil)
			}
		}
	}
	st.locks[key] = "false"
}

// ownedGhost: the ownership ghost guarding objects of this type, if any.
func (fc *FnCtx) ownedGhost(t types.Type) string {
	if isPointer(t) {
		return "" // a variable HOLDING a pointer to an owned object is not itself owned
	}
	if n := namedOf(t); n != nil && n.Obj().Pkg() != nil {
		return fc.eng.owned[n.Obj().Pkg().Path()+"."+n.Obj().Name()]
	}
	return ""
}

// guardedAccess: reading or writing a guarded field requires the lock; touching
// an owned object requires holding its ownership token.
func (fc *FnCtx) guardedAccess(fr *Frame, st *State, reach string, a *Addr, write bool) {
	if fc.quiet > 0 {
		return
	}
	if a.Alt != nil {
		p := *a
		p.Alt, p.AltCond = nil, ""
		fc.guardedAccess(fr, st, tAnd(reach, a.AltCond), &p, write)
		fc.guardedAccess(fr, st, tAnd(reach, tNot(a.AltCond)), a.Alt, write)
		return
	}
	if a.Kind == AObj {
		if g := fc.ownedGhost(a.Root); g != "" {
			tok := fc.loadLoc(st, loc{name: "GH$" + g, idx: []string{a.Base}, sort: "Int"})
			p, _ := pathName(a.Root, a.Path)
			fc.oblige(fr, "owned", fmt.Sprintf("access to %s.%s needs %s", typeName(a.Root), p, g), reach, tEq(tok, "1"), false, nil)
		}
	}
	if fc.freshObj[a.Base] {
		return
	}
	for _, m := range fc.monitorsGuarding(a) {
		held := fc.lockHeld(st, m, a.Base)
		if os.Getenv("GOVC_TRACE") != "" {
			fmt.Fprintf(os.Stderr, "guarded %s key=%s held=%s locks=%v\n", fr.prefix, lockKey(m, a.Base), held, st.locks)
		}
		p, _ := pathName(a.Root, a.Path)
		kind := "read"
		if write {
			kind = "write"
		}
		fc.oblige(fr, "guarded", fmt.Sprintf("%s of %s.%s needs %s", kind, m.RootT, p, m.Name), reach, held, false, nil)
	}
}

// consume: check that each token is held, then give it away.
func (fc *FnCtx) consume(fr *Frame, st *State, reach string, con *Contract, vars map[string]Val, items []string, what string, cond string) {
	for _, it := range items {
		it = strings.TrimSpace(it)
		i := strings.Index(it, "(")
		if i < 0 || !strings.HasSuffix(it, ")") {
			panic(specErr{"consumes/produces expects ghost(expr): " + it})
		}
		g := fc.eng.ghosts[it[:i]]
		if g == nil || !g.Field {
			panic(specErr{"unknown ghost field in " + it})
		}
		sp, err := parseSpec(it[i+1 : len(it)-1])
		if err != nil {
			panic(specErr{err.Error()})
		}
		env := fc.specEnv(st, nil, vars, con.Pkg, nil, it)
		ref := refOf(env.eval(sp))
		l := loc{name: "GH$" + g.Name, idx: []string{ref}, sort: "Int"}
		cur := fc.loadLoc(st, l)
		fc.oblige(fr, "consumes", what+": "+it+" held", reach, tEq(cur, "1"), false, nil)
		fc.storeLoc(st, l, tIte(cond, "0", cur))
	}
}

func (fc *FnCtx) produce(st *State, con *Contract, vars map[string]Val, items []string) {
	for _, it := range items {
		it = strings.TrimSpace(it)
		i := strings.Index(it, "(")
		g := fc.eng.ghosts[it[:i]]
		sp, err := parseSpec(it[i+1 : len(it)-1])
		if err != nil || g == nil {
			panic(specErr{"bad produces item " + it})
		}
		env := fc.specEnv(st, nil, vars, con.Pkg, nil, it)
		ref := refOf(env.eval(sp))
		fc.storeLoc(st, loc{name: "GH$" + g.Name, idx: []string{ref}, sort: "Int"}, "1")
	}
}

// chanContract finds the chanfield contract for a channel value loaded from a struct field.
func (fc *FnCtx) chanContract(ch Val) *Contract {
	if ch.Orig == "" {
		return nil
	}
	return fc.eng.contracts["chanfield:"+ch.Orig]
}

// chanSend: channel invariant checked, tokens handed over (when cond holds: the send case fired).
func (fc *FnCtx) chanSend(fr *Frame, st *State, reach string, ch Val, sent Val, cond string) {
	// built-in ghost: sendtries(ch) counts the send attempts made on a channel
	// (a plain send, or a send case of a select, whether or not it is chosen)
	if ch.S != "" {
		l := loc{name: "GH$sendtries", idx: []string{ch.S}, sort: "Int"}
		fc.storeLoc(st, l, sx("+", fc.loadLoc(st, l), "1"))
	}
	con := fc.chanContract(ch)
	if con == nil {
		return
	}
	fc.usedContracts[con.Key] = true
	vars := bindParams(con, nil, []Val{ch, sent})
	for _, cl := range con.Requires {
		env := fc.specEnv(st, nil, vars, con.Pkg, nil, cl.Text)
		fc.oblige(fr, "chan-invariant", con.Key[len("chanfield:"):]+": "+clauseName(cl), reach, env.evalBool(cl.Expr), env.quant, nil)
	}
	fc.consume(fr, st, reach, con, vars, con.Consumes, "send on "+con.Key[len("chanfield:"):], cond)
}

// chanRecv: the received value satisfies the channel invariant and brings its tokens.
func (fc *FnCtx) chanRecv(st *State, reach string, ch Val, got Val, cond string) {
	con := fc.chanContract(ch)
	if con == nil {
		return
	}
	fc.usedContracts[con.Key] = true
	fc.assumption("channel invariant assumed at receive (checked at every send in verified code): " + con.Key)
	vars := bindParams(con, nil, []Val{ch, got})
	// tokens first, then the invariant (which may mention the token)
	if cond == "true" {
		fc.produce(st, con, vars, con.Produces)
	} else {
		for _, it := range con.Produces {
			i := strings.Index(it, "(")
			g := fc.eng.ghosts[strings.TrimSpace(it[:i])]
			sp, _ := parseSpec(it[i+1 : len(strings.TrimSpace(it))-1])
			env := fc.specEnv(st, nil, vars, con.Pkg, nil, it)
			ref := refOf(env.eval(sp))
			l := loc{name: "GH$" + g.Name, idx: []string{ref}, sort: "Int"}
			cur := fc.loadLoc(st, l)
			fc.storeLoc(st, l, tIte(cond, "1", cur))
		}
	}
	for _, cl := range con.Requires {
		env := fc.specEnv(st, nil, vars, con.Pkg, nil, cl.Text)
		fc.sc.assume(tImp(tAnd(reach, cond), env.evalBool(cl.Expr)))
	}
}

// monitorWriters lists, per monitor, the functions that store to a guarded
// field and whether each is under contract (A-MON: the monitor argument covers
// every interleaving only if all writers are verified).
func (e *Engine) monitorWriters() map[string][]string {
	out := map[string][]string{}
	for _, m := range e.monitors {
		seen := map[string]bool{}
		for _, fn := range e.funcs {
			for _, b := range fn.Blocks {
				for _, ins := range b.Instrs {
					st, ok := ins.(*ssa.Store)
					if !ok {
						continue
					}
					// collect the field path from the root *T
					var names []string
					var cur ssa.Value = st.Addr
					rooted := false
					freshRoot := false
					for cur != nil {
						switch a := cur.(type) {
						case *ssa.FieldAddr:
							pt, ok := a.X.Type().Underlying().(*types.Pointer)
							if ok && structOf(pt.Elem()) != nil {
								names = append([]string{structOf(pt.Elem()).Field(a.Field).Name()}, names...)
								if types.Identical(pt.Elem(), m.rootType) {
									rooted = true
									_, freshRoot = a.X.(*ssa.Alloc)
									cur = nil
									continue
								}
							}
							cur = a.X
						case *ssa.IndexAddr:
							cur = a.X
						default:
							cur = nil
						}
					}
					if !rooted {
						continue
					}
					p := strings.Join(names, ".")
					for _, g := range m.Guards {
						if p == g || strings.HasPrefix(p, g+".") {
							top := fn
							for top.Parent() != nil {
								top = top.Parent()
							}
							status := "NOT under contract"
							if c := e.contracts[top.String()]; c != nil {
								status = "verified"
							} else if freshRoot {
								status = "constructor: store to an object allocated in the same function, before it can be shared"
							}
							key := shortFnName(top) + " (" + status + ")"
							if !seen[key] {
								seen[key] = true
								out[m.Name] = append(out[m.Name], key)
							}
						}
					}
				}
			}
		}
		sort.Strings(out[m.Name])
	}
	return out
}
