package main

// Symbolic execution of go/ssa function bodies into a passive, reach-guarded
// SMT script (one per function under verification).

import (
	"regexp"
	"fmt"
	"go/ast"
	"go/token"
	"go/types"
	"sort"
	"strings"

	"golang.org/x/tools/go/ssa"
)

type unsupported struct{ msg string }

func unsup(format string, a ...interface{}) { panic(unsupported{fmt.Sprintf(format, a...)}) }

// epoch identifies the "initial" value of heap names not yet touched.
type epoch struct {
	id     int
	cond   string
	l, r   *epoch
	keep   []string // heap-name prefixes whose values are inherited from parent
	parent *epoch
}

type FnCtx struct {
	eng       *Engine
	fn        *ssa.Function
	con       *Contract
	sc        *Script
	sorts     map[string]string // heap name -> SMT sort
	ep0       *epoch
	cellType  map[int]types.Type
	obls      []*Obligation
	oblNames  map[string]int
	props     []string
	discovery bool
	// loop write sets (from discovery pass)
	loopWrites    map[*ssa.BasicBlock]map[string]bool
	loopCellW     map[*ssa.BasicBlock]map[int]bool
	loopHavocAll  map[*ssa.BasicBlock]bool
	loopKeep      map[*ssa.BasicBlock][]string // heap-name prefixes kept by EVERY whole-heap havoc inside the loop (nil: none seen yet)
	loopKeepSet   map[*ssa.BasicBlock]bool
	activeLoops   []*ssa.BasicBlock
	nEpoch        int
	nCell         int
	cellOf        map[string]int // stable cell ids: frame prefix + alloc name
	assumptions   map[string]bool
	inlined       map[string]bool
	usedContracts map[string]bool
	depth         int
	stack         []*ssa.Function
	allocName     string
	watch         []string
	oldSt         *State // entry state snapshot for old()
	params        map[string]Val
	quiet         int // >0: suppress obligations (spec-level calls)
	curPos        token.Pos
	writtenNames  map[string]bool // all heap names written in this function (for frame check)
	conformIface  bool      // conformance job: fc.con is an interface method's contract, `self` is the receiver
	conformOuter  types.Type // conformance job for a promoted method: the outer (implementing) struct type
	conformOuterPath []int
	conformImpl   *Contract // conformance job: the implementation's contract (fc.con is the interface method's contract)
	prefixOverride string
	loopHeadPhis  map[*ssa.BasicBlock]map[*ssa.Phi]Val // the loop variables' values at the head (for prev() in step clauses)
	ghostDefTargets []modTarget // ghost cells assigned by `defines` clauses (of callees and of the function itself)
	ownDefTargets   []modTarget
	lastRef       string
	curBinds      []Val // captured values of the closure being called by contract
	freshReach    map[string]string // reach condition under which each such object was allocated
	freshT        map[string]types.Type // struct objects allocated by this function (incl. inlined callees)
	rebind        map[string]string // contract name of a local -> its current name (locals.go)
	curCallee     *ssa.Function   // callee of the contract call being applied (for volatile ghosts)
	volatileNames map[string]bool // heap names havocked at a monitor acquisition (other threads' writes): exempt from the frame check
	inAcquire     bool
	havocAllSeen  bool
	ghostDefs     map[string]bool
	nq            int
	named         map[string]string
	structAssumed map[string]bool
	replay        []*replayParam
	freshObj      map[string]bool // refs allocated in this function (not yet shared: no lock needed)
	loopHead      map[*ssa.BasicBlock]*State
	modTargets    []modTarget
	modDeferred   []string
	poolVals      map[string]bool
	immut         map[string]bool // heap names of immutable globals
	nonNil        map[string]bool
	cellSeq       map[string]int
	curBlock      *ssa.BasicBlock
	curReach      string
	tagTypes      map[int]types.Type
}

type Frame struct {
	fn      *ssa.Function
	vals    map[ssa.Value]Val
	prefix  string
	parent  *Frame
	loops   []*ssa.BasicBlock // active loops of the caller at the call site
	retVals []retEdge
	names   map[string]ssa.Value // debug names
	site    ssa.CallInstruction
}

type retEdge struct {
	reach string
	st    *State
	val   Val
}

func (fc *FnCtx) noteWrite(name string) {
	fc.writtenNames[name] = true
	if fc.inAcquire {
		if fc.volatileNames == nil {
			fc.volatileNames = map[string]bool{}
		}
		fc.volatileNames[name] = true
	}
	for _, h := range fc.activeLoops {
		m := fc.loopWrites[h]
		if m == nil {
			m = map[string]bool{}
			fc.loopWrites[h] = m
		}
		if !fc.discovery && !m[name] && !fc.loopHavocAll[h] {
			unsup("unstable loop write set: %s", name)
		}
		m[name] = true
	}
}

func (fc *FnCtx) noteCellWrite(c int) {
	for _, h := range fc.activeLoops {
		m := fc.loopCellW[h]
		if m == nil {
			m = map[int]bool{}
			fc.loopCellW[h] = m
		}
		m[c] = true
	}
}

func (fc *FnCtx) noteHavocAll() {
	fc.havocAllSeen = true
	for _, h := range fc.activeLoops {
		fc.loopHavocAll[h] = true
	}
}

func (fc *FnCtx) assumption(s string) { fc.assumptions[s] = true }

// ---------- obligations ----------

var safetyKinds = map[string]bool{"nil": true, "index": true, "slice": true, "divzero": true, "typeassert": true, "panic": true, "nilmap": true, "makeslice": true}

func (fc *FnCtx) oblige(fr *Frame, kind, text, reach, cond string, quant bool, props []string) *Obligation {
	if fc.quiet > 0 {
		return nil
	}
	if safetyKinds[kind] && fc.con != nil && fc.con.NoSafety {
		// not checked under this contract: execution continues only where Go would not panic
		fc.assumption("nosafety: implicit panics in " + shortFnName(fc.fn) + " are not checked by this contract (concurrency/accounting contract only)")
		fc.sc.assume(tImp(reach, cond))
		return nil
	}
	name := fmt.Sprintf("%s#%s(%s)", fr.prefix, kind, text)
	fc.oblNames[name]++
	if n := fc.oblNames[name]; n > 1 {
		name = fmt.Sprintf("%s#%d", name, n)
	}
	if props == nil {
		props = fc.props
	}
	o := &Obligation{Name: name, Kind: kind, Fn: fc.fn.String(), Props: props, Quant: quant}
	if fc.curPos.IsValid() {
		p := fc.eng.fset.Position(fc.curPos)
		o.Pos = fmt.Sprintf("%s:%d", p.Filename, p.Line)
	}
	o.Watch = fc.watch
	t := tImp(reach, cond)
	o.SMTSize = len(t)
	fc.obls = append(fc.obls, o)
	fc.sc.check(t, o)
	return o
}

// srcText returns the source text of the smallest expression enclosing pos.
func (fc *FnCtx) srcText(fn *ssa.Function, pos token.Pos, want func(ast.Node) bool) string {
	if !pos.IsValid() {
		return "?"
	}
	f := fc.eng.fileOf(pos)
	if f == nil {
		return "?"
	}
	var best ast.Node
	ast.Inspect(f, func(n ast.Node) bool {
		if n == nil {
			return false
		}
		if n.Pos() <= pos && pos < n.End() {
			if want(n) {
				best = n
			}
			return true
		}
		return false
	})
	if best == nil {
		return "?"
	}
	if e, ok := best.(ast.Expr); ok {
		return types.ExprString(e)
	}
	return "?"
}

// ---------- values ----------

func (fc *FnCtx) freshLeaf(hint string) leafFn {
	return func(suffix, sort string, t types.Type) string {
		return fc.sc.fresh(hint+suffix, sort)
	}
}

// freshVal creates an unconstrained value of type t and assumes its type invariant.
func (fc *FnCtx) freshVal(st *State, t types.Type, hint string) Val {
	v := buildVal(t, "", fc.freshLeaf(hint))
	fc.sc.assume(fc.typeInv(st, v))
	return v
}

const maxLen = "281474976710656" // 2^48: address-space bound on lengths (A-ARCH)

// typeInv is the invariant every value of its type satisfies.
func (fc *FnCtx) typeInv(st *State, v Val) string {
	var cs []string
	switch v.K {
	case KInt:
		cs = append(cs, rangeTerm(v.T, v.S))
		switch v.T.Underlying().(type) {
		case *types.Map, *types.Chan:
			cs = append(cs, tOr(tEq(v.S, "0"), tSel(fc.alloc(st), v.S)), sx("<=", "0", v.S))
		}
	case KSlice:
		cs = append(cs, sx("<=", "0", v.Off), sx("<=", "0", v.Len), sx("<=", v.Len, v.Cap), sx("<=", sx("+", v.Off, v.Cap), maxLen),
			sx("<=", "0", v.Arr),
			tImp(tEq(v.Arr, "0"), tAnd(tEq(v.Cap, "0"), tEq(v.Off, "0"))),
			tImp(tNot(tEq(v.Arr, "0")), tSel(fc.alloc(st), v.Arr)))
	case KStr:
		cs = append(cs, sx("<=", sx("str.len", v.S), maxLen))
	case KIface:
		cs = append(cs, sx("<=", "0", v.Tag), tImp(tEq(v.Tag, "0"), tEq(v.S, "0")))
	case KAddr:
		cs = append(cs, sx("<=", "0", v.A.Base))
		if v.A.Kind == AObj {
			cs = append(cs, tOr(tEq(v.A.Base, "0"), tSel(fc.alloc(st), v.A.Base)))
		}
	case KStruct, KTuple:
		for _, f := range v.Fs {
			cs = append(cs, fc.typeInv(st, f))
		}
	}
	return tAnd(cs...)
}

func (fc *FnCtx) alloc(st *State) string {
	return fc.heapTerm(st, "Alloc", "(Array Int Bool)")
}

// newRef allocates a fresh reference.
func (fc *FnCtx) newRef(st *State, hint string) string {
	r := fc.sc.fresh(hint, "Int")
	a := fc.alloc(st)
	fc.sc.assume(tAnd(sx(">", r, "0"), tNot(tSel(a, r))))
	// references created at different program points are distinct objects, also
	// across branches (the allocation sets of sibling branches are unrelated terms)
	if fc.lastRef != "" {
		fc.sc.assume(sx(">", r, fc.lastRef))
	}
	fc.lastRef = r
	st.heap["Alloc"] = fc.nameTerm("alloc", "(Array Int Bool)", tStore(a, r, "true"))
	fc.nonNil[r] = true
	fc.freshObj[r] = true
	return r
}

func zeroLeaf(suffix, sort string, t types.Type) string {
	switch sort {
	case "Bool":
		return "false"
	case "String":
		return `""`
	case "Int":
		return "0"
	}
	return "((as const " + sort + ") 0)"
}

func zeroVal(t types.Type) Val { return buildVal(t, "", zeroLeaf) }

func (fc *FnCtx) tagOf(t types.Type) string {
	id := tagID(types.TypeString(t, nil))
	fc.tagTypes[id] = t
	return num(int64(id))
}

// ---------- addresses ----------

func (fc *FnCtx) locsOf(a *Addr) (name string, idx []string) { return fc.addrBase(a) }

func (fc *FnCtx) load(st *State, a *Addr) Val {
	if a.Alt != nil {
		p := *a
		p.Alt, p.AltCond = nil, ""
		return fc.mergeVal(a.AltCond, fc.load(st, &p), fc.load(st, a.Alt))
	}
	switch a.Kind {
	case ACell:
		v, ok := st.cells[a.Cell]
		if !ok {
			v = zeroVal(a.T)
		}
		if len(a.Path) > 0 {
			for _, i := range a.Path {
				v = v.Fs[i]
			}
		}
		return v
	case AOpaque:
		if _, isStruct := a.T.Underlying().(*types.Struct); isStruct || a.Base == "" {
			return fc.freshVal(st, a.T, "opq")
		}
		fc.assumption("A-BOX: pointers to non-struct values held in parameters or fields are modelled as a separate memory per pointee type; they are assumed not to alias struct fields or slice elements the function also accesses directly")
	}
	base, idx := fc.addrBase(a)
	v := buildVal(a.T, "", func(suffix, sort string, t types.Type) string {
		return fc.loadLoc(st, loc{name: lname(base, suffix), idx: idx, sort: sort, t: t})
	})
	fc.sc.assume(fc.typeInv(st, v))
	if (v.K == KFunc || (v.K == KInt && isChan(v.T))) && a.Kind == AObj && len(a.Path) > 0 {
		t := a.Root
		var owner *types.Named
		fname := ""
		for _, i := range a.Path {
			if n := namedOf(t); n != nil {
				owner = n
			}
			if arr, ok := t.Underlying().(*types.Array); ok {
				t = arr.Elem()
			}
			f := structOf(t).Field(i)
			fname = f.Name()
			t = f.Type()
		}
		if owner != nil && owner.Obj().Pkg() != nil {
			v.Orig = owner.Obj().Pkg().Path() + "." + owner.Obj().Name() + "." + fname
		}
	}
	if v.K == KAddr && len(fc.eng.structInvs) > 0 && fc.quiet == 0 {
		fc.assumeStructInv(st, v)
	}
	// reading a field of an object that carries a structure invariant over fields
	// with verified writers: the invariant holds for the heap being read (a callee
	// may have rewritten those fields since the pointer itself was obtained)
	if a.Kind == AObj && len(a.Path) > 0 && a.Root != nil && len(fc.eng.structInvs) > 0 && fc.quiet == 0 {
		for _, si := range fc.eng.structInvs {
			unstable := false
			for _, ok := range si.stable {
				unstable = unstable || !ok
			}
			if unstable && types.Identical(a.Root, si.rootType) {
				fc.assumeStructInv(st, Val{K: KAddr, T: types.NewPointer(si.rootType), A: &Addr{Kind: AObj, Base: a.Base, Root: si.rootType, T: si.rootType}})
			}
		}
	}
	if a.Kind == AGlobal && len(a.Path) == 0 && v.K == KAddr && v.A.Kind == AObj && fc.eng.initAlloc[a.Global] && !fc.eng.mutableGlobal[a.Global] {
		fc.assumption("A-INIT: package-level pointers initialised to a composite literal and never reassigned are non-nil")
		fc.sc.assume(tAnd(tNot(tEq(v.A.Base, "0")), tSel(fc.alloc(st), v.A.Base)))
		fc.nonNil[v.A.Base] = true
	}
	if a.Kind == AGlobal && len(a.Path) == 0 && v.K == KIface && fc.eng.initStored[a.Global] && !fc.eng.mutableGlobal[a.Global] {
		// A-INIT: package initialisers ran; sentinel values are non-nil and pairwise distinct
		fc.assumption("A-INIT: package-level sentinel values are initialised, non-nil and pairwise distinct")
		// sentinel payloads are negative: distinct from each other and from every object reference
		fc.sc.assume(tAnd(tNot(tEq(v.Tag, "0")), tEq(v.S, num(-int64(tagID("global:"+a.Global.String()))))))
	}
	return v
}

func isChan(t types.Type) bool { _, ok := t.Underlying().(*types.Chan); return ok }

func (fc *FnCtx) store(st *State, a *Addr, v Val) {
	if a.Alt != nil {
		p := *a
		p.Alt, p.AltCond = nil, ""
		fc.store(st, &p, fc.mergeVal(a.AltCond, v, fc.load(st, &p)))
		fc.store(st, a.Alt, fc.mergeVal(a.AltCond, fc.load(st, a.Alt), v))
		return
	}
	switch a.Kind {
	case ACell:
		if len(a.Path) > 0 {
			cur, ok := st.cells[a.Cell]
			if !ok {
				cur = zeroVal(fc.cellType[a.Cell])
			}
			st.cells[a.Cell] = setPath(cur, a.Path, v)
		} else {
			st.cells[a.Cell] = v
		}
		fc.noteCellWrite(a.Cell)
		return
	case AOpaque:
		if _, isStruct := a.T.Underlying().(*types.Struct); isStruct || a.Base == "" {
			fc.assumption("A-OPAQUE-STORE: store through a pointer the model does not track (" + types.TypeString(a.T, nil) + ")")
			return
		}
	}
	base, idx := fc.addrBase(a)
	walkVal(fc.storable(v), "", func(suffix, sort, term string, t types.Type) {
		fc.storeLoc(st, loc{name: lname(base, suffix), idx: idx, sort: sort, t: t}, term)
	})
}

func setPath(cur Val, path []int, v Val) Val {
	if len(path) == 0 {
		return v
	}
	n := cur
	n.Fs = append([]Val{}, cur.Fs...)
	n.Fs[path[0]] = setPath(cur.Fs[path[0]], path[1:], v)
	return n
}

// storable checks that a value can live in the heap (pointers must be root refs).
func (fc *FnCtx) storable(v Val) Val {
	switch v.K {
	case KAddr:
		switch v.A.Kind {
		case AObj:
			if len(v.A.Path) > 0 || v.A.Idx != "" {
				unsup("interior pointer stored in heap")
			}
		case AOpaque:
		case AElem:
			if v.A.Idx != "" {
				unsup("element pointer stored in heap")
			}
		default:
			unsup("non-object pointer stored in heap (kind %d)", v.A.Kind)
		}
	case KStruct, KTuple:
		for _, f := range v.Fs {
			fc.storable(f)
		}
	case KFunc:
		if v.S == "" {
			v.S = fc.funcID(v)
		}
	}
	return v
}

func (fc *FnCtx) funcID(v Val) string {
	if v.Fn != nil {
		return num(int64(tagID("fn:" + v.Fn.String())))
	}
	return "0"
}

// ---------- merging ----------

func (fc *FnCtx) mergeVal(c string, a, b Val) Val {
	if a.K != b.K {
		unsup("merge of different kinds %d %d", a.K, b.K)
	}
	out := a
	switch a.K {
	case KInt, KBool, KStr, KFloat, KArray:
		out.S = tIte(c, a.S, b.S)
	case KSlice:
		out.Arr, out.Off, out.Len, out.Cap = tIte(c, a.Arr, b.Arr), tIte(c, a.Off, b.Off), tIte(c, a.Len, b.Len), tIte(c, a.Cap, b.Cap)
	case KIface:
		out.Tag, out.S = tIte(c, a.Tag, b.Tag), tIte(c, a.S, b.S)
	case KFunc:
		if a.Fn != b.Fn {
			out.Fn = nil
			out.Bind = nil
			out.S = tIte(c, fc.storable(a).S, fc.storable(b).S)
		}
	case KAddr:
		if a.A.Kind != b.A.Kind {
			// nil pointer vs something: a nil const is AObj/AOpaque with base 0
			if a.A.Base == "0" {
				na := *b.A
				na.Base = "0"
				a.A = &na
			} else if b.A.Base == "0" {
				nb := *a.A
				nb.Base = "0"
				b.A = &nb
			} else if a.A.Alt == nil && b.A.T != nil && a.A.T != nil && types.Identical(a.A.T, b.A.T) {
				// e.g. a pointer to a fresh object merged with the address of a global:
				// kept as a conditional address
				na := *a.A
				na.Alt, na.AltCond = b.A, c
				out.A = &na
				return out
			} else {
				unsup("merge of different address kinds")
			}
		}
		na := *a.A
		switch a.A.Kind {
		case AObj, AOpaque:
			if !samePath(a.A, b.A) || a.A.Alt != nil || b.A.Alt != nil {
				if a.A.Alt != nil || !types.Identical(a.A.T, b.A.T) {
					unsup("merge of interior pointers with different paths")
				}
				na.Alt, na.AltCond = b.A, c
				out.A = &na
				return out
			}
			na.Base = tIte(c, a.A.Base, b.A.Base)
			if a.A.Idx != "" || b.A.Idx != "" {
				na.Idx = tIte(c, a.A.Idx, b.A.Idx)
			}
		case AElem:
			if !samePath(a.A, b.A) {
				unsup("merge of element pointers with different paths")
			}
			na.Base = tIte(c, a.A.Base, b.A.Base)
			na.Idx = tIte(c, a.A.Idx, b.A.Idx)
		case ACell:
			if a.A.Cell != b.A.Cell || !samePath(a.A, b.A) {
				unsup("merge of different local cells")
			}
		case AGlobal:
			if a.A.Global != b.A.Global || !samePath(a.A, b.A) {
				unsup("merge of different globals")
			}
		}
		out.A = &na
	case KStruct, KTuple:
		out.Fs = make([]Val, len(a.Fs))
		for i := range a.Fs {
			out.Fs[i] = fc.mergeVal(c, a.Fs[i], b.Fs[i])
		}
	}
	return out
}

func samePath(a, b *Addr) bool {
	if len(a.Path) != len(b.Path) || a.IdxAt != b.IdxAt || (a.Idx == "") != (b.Idx == "") {
		return false
	}
	for i := range a.Path {
		if a.Path[i] != b.Path[i] {
			return false
		}
	}
	return true
}

// nameVal replaces big component terms by fresh named constants.
func (fc *FnCtx) nameVal(v Val, hint string) Val {
	nm := func(sort, t string) string { return fc.nameTerm(hint, sort, t) }
	switch v.K {
	case KInt, KFloat:
		v.S = nm("Int", v.S)
	case KBool:
		v.S = nm("Bool", v.S)
	case KStr:
		v.S = nm("String", v.S)
	case KArray:
		v.S = nm("(Array Int Int)", v.S)
	case KSlice:
		v.Arr, v.Off, v.Len, v.Cap = nm("Int", v.Arr), nm("Int", v.Off), nm("Int", v.Len), nm("Int", v.Cap)
	case KIface:
		v.Tag, v.S = nm("Int", v.Tag), nm("Int", v.S)
	case KFunc:
		if v.S != "" {
			v.S = nm("Int", v.S)
		}
	case KAddr:
		na := *v.A
		na.Base = nm("Int", na.Base)
		if na.Idx != "" {
			na.Idx = nm("Int", na.Idx)
		}
		v.A = &na
	case KStruct, KTuple:
		fs := make([]Val, len(v.Fs))
		for i := range v.Fs {
			fs[i] = fc.nameVal(v.Fs[i], hint)
		}
		v.Fs = fs
	}
	return v
}

func (fc *FnCtx) epochTerm(e *epoch, name, sort string) string {
	if e.parent != nil {
		for _, p := range e.keep {
			if strings.HasPrefix(name, p) {
				return fc.epochTerm(e.parent, name, sort)
			}
		}
	}
	if e.l == nil {
		c := fmt.Sprintf("%s@%d", sanitize(name), e.id)
		fc.sc.declare(c, sort)
		return c
	}
	return tIte(e.cond, fc.epochTerm(e.l, name, sort), fc.epochTerm(e.r, name, sort))
}

// mergeStates merges b into a under condition c (c ? a : b).
func (fc *FnCtx) mergeStates(c string, a, b *State) *State {
	out := a.clone()
	names := map[string]bool{}
	for k := range a.heap {
		names[k] = true
	}
	for k := range b.heap {
		names[k] = true
	}
	ks := make([]string, 0, len(names))
	for k := range names {
		ks = append(ks, k)
	}
	sort.Strings(ks)
	for _, k := range ks {
		srt := fc.sorts[k]
		ta := fc.heapTerm(a, k, srt)
		tb := fc.heapTerm(b, k, srt)
		if ta != tb {
			out.heap[k] = fc.nameTerm("hm", srt, tIte(c, ta, tb))
		} else {
			out.heap[k] = ta
		}
	}
	cells := map[int]bool{}
	for k := range a.cells {
		cells[k] = true
	}
	for k := range b.cells {
		cells[k] = true
	}
	for k := range cells {
		va, oka := a.cells[k]
		vb, okb := b.cells[k]
		if !oka {
			va = zeroVal(fc.cellType[k])
		}
		if !okb {
			vb = zeroVal(fc.cellType[k])
		}
		out.cells[k] = fc.nameVal(fc.mergeVal(c, va, vb), "cm")
	}
	if a.ep != b.ep {
		out.ep = &epoch{cond: c, l: a.ep, r: b.ep}
	}
	for k := range b.locks {
		if _, ok := out.locks[k]; !ok {
			out.locks[k] = "false"
		}
	}
	for k, la := range out.locks {
		lb, ok := b.locks[k]
		if !ok {
			lb = "false"
		}
		out.locks[k] = tIte(c, la, lb)
	}
	if a.calls != nil || b.calls != nil {
		m := map[string]string{}
		for k, v := range a.calls {
			m[k] = v
		}
		for k := range b.calls {
			if _, ok := m[k]; !ok {
				m[k] = "0"
			}
		}
		for k, va := range m {
			vb, ok := b.calls[k]
			if !ok {
				vb = "0"
			}
			if va != vb {
				m[k] = tIte(c, va, vb)
			}
		}
		out.calls = m
	}
	if a.nbLocks != nil || b.nbLocks != nil {
		m := map[string]string{}
		for k, v := range a.nbLocks {
			m[k] = v
		}
		for k := range b.nbLocks {
			if _, ok := m[k]; !ok {
				m[k] = "false"
			}
		}
		for k, la := range m {
			lb, ok := b.nbLocks[k]
			if !ok {
				lb = "false"
			}
			m[k] = tIte(c, la, lb)
		}
		out.nbLocks = m
	}
	if b.lockSnap != nil {
		if out.lockSnap == nil {
			out.lockSnap = map[string]*State{}
		}
		for k, v := range b.lockSnap {
			if _, ok := out.lockSnap[k]; !ok {
				out.lockSnap[k] = v
			}
		}
	}
	// defers: keep the longer list; entries carry their own conditions
	if len(b.defers) > len(out.defers) {
		out.defers = append([]deferred{}, b.defers...)
	}
	return out
}

// ---------- function body ----------

type edgeIn struct {
	from  *ssa.BasicBlock
	reach string
	st    *State
}

func isBackEdge(from, to *ssa.BasicBlock) bool { return to.Dominates(from) }

func loopBlocks(h *ssa.BasicBlock) map[*ssa.BasicBlock]bool {
	// natural loop of all back edges into h
	body := map[*ssa.BasicBlock]bool{h: true}
	var work []*ssa.BasicBlock
	for _, p := range h.Preds {
		if isBackEdge(p, h) && !body[p] {
			body[p] = true
			work = append(work, p)
		}
	}
	for len(work) > 0 {
		b := work[len(work)-1]
		work = work[:len(work)-1]
		for _, p := range b.Preds {
			if !body[p] {
				body[p] = true
				work = append(work, p)
			}
		}
	}
	return body
}

func loopHeaders(fn *ssa.Function) []*ssa.BasicBlock {
	var hs []*ssa.BasicBlock
	for _, b := range fn.Blocks {
		for _, p := range b.Preds {
			if isBackEdge(p, b) {
				hs = append(hs, b)
				break
			}
		}
	}
	return hs
}

func rpo(fn *ssa.Function) []*ssa.BasicBlock {
	seen := map[*ssa.BasicBlock]bool{}
	var post []*ssa.BasicBlock
	var dfs func(b *ssa.BasicBlock)
	dfs = func(b *ssa.BasicBlock) {
		seen[b] = true
		for _, s := range b.Succs {
			if !seen[s] && !isBackEdge(b, s) {
				dfs(s)
			}
		}
		post = append(post, b)
	}
	dfs(fn.Blocks[0])
	for i, j := 0, len(post)-1; i < j; i, j = i+1, j-1 {
		post[i], post[j] = post[j], post[i]
	}
	return post
}

// execBody runs fn's body. st is updated in place to the merged state at
// return; the merged return value is returned together with the condition
// under which the function returns normally.
func (fc *FnCtx) execBody(fr *Frame, st *State, reach string) (Val, string) {
	fn := fr.fn
	if len(fn.Blocks) == 0 {
		unsup("no body: %s", fn)
	}
	headers := map[*ssa.BasicBlock]int{}
	for i, h := range loopHeaders(fn) {
		headers[h] = i
	}
	inLoops := map[*ssa.BasicBlock][]*ssa.BasicBlock{}
	for h := range headers {
		for b := range loopBlocks(h) {
			inLoops[b] = append(inLoops[b], h)
		}
	}
	ins := map[*ssa.BasicBlock][]edgeIn{}
	order := rpo(fn)
	savedLoops := fc.activeLoops
	defer func() { fc.activeLoops = savedLoops }()

	for _, b := range order {
		var breach string
		var bst *State
		var edges []edgeIn
		if b == fn.Blocks[0] {
			breach, bst = reach, st.clone()
		} else {
			edges = ins[b]
			if len(edges) == 0 {
				continue // unreachable (e.g. only reachable via recover)
			}
			var rs []string
			for _, e := range edges {
				rs = append(rs, e.reach)
			}
			breach = fc.nameTerm("r_"+b.Comment, "Bool", tOr(rs...))
			bst = edges[len(edges)-1].st
			for i := len(edges) - 2; i >= 0; i-- {
				bst = fc.mergeStates(edges[i].reach, edges[i].st, bst)
			}
			if len(edges) == 1 {
				bst = bst.clone()
			}
		}
		fc.activeLoops = append(append([]*ssa.BasicBlock{}, fr.loops...), inLoops[b]...)
		fc.curBlock = b

		// phis
		phiAt := func(e edgeIn, phi *ssa.Phi) Val {
			for i, p := range b.Preds {
				if p == e.from {
					return fc.value(fr, e.st, phi.Edges[i])
				}
			}
			panic("phi edge")
		}
		var phis []*ssa.Phi
		for _, ins := range b.Instrs {
			if p, ok := ins.(*ssa.Phi); ok {
				phis = append(phis, p)
			} else {
				break
			}
		}
		if li, isHeader := headers[b]; isHeader {
			// entry check of invariants on forward edges
			entryVals := map[*ssa.Phi]Val{}
			for _, p := range phis {
				v := phiAt(edges[len(edges)-1], p)
				for i := len(edges) - 2; i >= 0; i-- {
					v = fc.mergeVal(edges[i].reach, phiAt(edges[i], p), v)
				}
				entryVals[p] = v
			}
			fc.checkInvariants(fr, b, li, bst, breach, entryVals, "entry", phis)
			// havoc
			fc.havocLoop(fr, b, bst)
			for _, p := range phis {
				v := fc.freshVal(bst, p.Type(), "phi_"+p.Comment)
				fr.vals[p] = v
			}
			cur := map[*ssa.Phi]Val{}
			for _, p := range phis {
				cur[p] = fr.vals[p]
			}
			fc.assumeInvariants(fr, b, li, bst, breach, cur, entryVals, phis)
			if fc.loopHead == nil {
				fc.loopHead = map[*ssa.BasicBlock]*State{}
			}
			fc.loopHead[b] = bst.clone()
			if fc.loopHeadPhis == nil {
				fc.loopHeadPhis = map[*ssa.BasicBlock]map[*ssa.Phi]Val{}
			}
			fc.loopHeadPhis[b] = cur
		} else {
			for _, p := range phis {
				v := phiAt(edges[len(edges)-1], p)
				for i := len(edges) - 2; i >= 0; i-- {
					v = fc.mergeVal(edges[i].reach, phiAt(edges[i], p), v)
				}
				fr.vals[p] = fc.nameVal(v, "phi_"+p.Comment)
			}
		}

		// instructions
		var outs []outEdge
		for _, ins := range b.Instrs[len(phis):] {
			if ins.Pos().IsValid() {
				fc.curPos = ins.Pos()
			}
			switch t := ins.(type) {
			case *ssa.If:
				c := fc.value(fr, bst, t.Cond).S
				c = fc.nameTerm("c", "Bool", c)
				outs = append(outs, outEdge{b.Succs[0], tAnd(breach, c), bst}, outEdge{b.Succs[1], tAnd(breach, tNot(c)), bst})
			case *ssa.Jump:
				outs = append(outs, outEdge{b.Succs[0], breach, bst})
			case *ssa.Return:
				var rv Val
				switch len(t.Results) {
				case 0:
					rv = Val{K: KTuple, T: types.NewTuple()}
				case 1:
					rv = fc.value(fr, bst, t.Results[0])
				default:
					rv = Val{K: KTuple, T: fn.Signature.Results()}
					for _, r := range t.Results {
						rv.Fs = append(rv.Fs, fc.value(fr, bst, r))
					}
				}
				fr.retVals = append(fr.retVals, retEdge{breach, bst, rv})
			case *ssa.Panic:
				kind := "panic"
				if fc.con != nil && fc.con.NoPanic && fr.parent == nil {
					kind = "explicit-panic" // `nopanic`: checked even under `nosafety`
				}
				fc.oblige(fr, kind, fc.panicText(fr, t), breach, "false", false, nil)
			default:
				fc.curReach = breach
				fc.execInstr(fr, bst, breach, ins)
			}
		}
		for _, e := range outs {
			if _, isH := headers[e.to]; isH && isBackEdge(b, e.to) {
				// back edge: assert invariants with this edge's phi values
				var hp []*ssa.Phi
				for _, ins := range e.to.Instrs {
					if p, ok := ins.(*ssa.Phi); ok {
						hp = append(hp, p)
					} else {
						break
					}
				}
				vals := map[*ssa.Phi]Val{}
				for _, p := range hp {
					for i, pr := range e.to.Preds {
						if pr == b {
							vals[p] = fc.value(fr, e.st, p.Edges[i])
						}
					}
				}
				saved := fc.activeLoops
				fc.checkInvariants(fr, e.to, headers[e.to], e.st, e.reach, vals, "back", hp)
				fc.activeLoops = saved
				continue
			}
			ins[e.to] = append(ins[e.to], edgeIn{b, e.reach, e.st})
		}
	}

	// merge returns
	if len(fr.retVals) == 0 {
		*st = *st.clone()
		return Val{K: KTuple, T: types.NewTuple()}, "false"
	}
	rs := fr.retVals
	outSt := rs[len(rs)-1].st
	outV := rs[len(rs)-1].val
	var reaches []string
	for i := len(rs) - 1; i >= 0; i-- {
		reaches = append(reaches, rs[i].reach)
		if i < len(rs)-1 {
			outSt = fc.mergeStates(rs[i].reach, rs[i].st, outSt)
			outV = fc.mergeVal(rs[i].reach, rs[i].val, outV)
		}
	}
	*st = *outSt
	return fc.nameVal(outV, "ret"), fc.nameTerm("r_ret", "Bool", tOr(reaches...))
}

type outEdge struct {
	to    *ssa.BasicBlock
	reach string
	st    *State
}

func (fc *FnCtx) panicText(fr *Frame, p *ssa.Panic) string {
	switch x := p.X.(type) {
	case *ssa.MakeInterface:
		if c, ok := x.X.(*ssa.Const); ok && c.Value != nil {
			return c.Value.ExactString()
		}
		return strings.TrimSpace(fc.srcText(fr.fn, p.Pos(), func(n ast.Node) bool { _, ok := n.(*ast.CallExpr); return ok }))
	}
	return "panic"
}

// havocLoop forgets everything the loop body may write.
var callsRe = regexp.MustCompile(`calls\((\w+)\)`)

func (fc *FnCtx) havocLoop(fr *Frame, h *ssa.BasicBlock, st *State) {
	// call counters (calls(F)) are unknown after an unknown number of iterations
	if fc.con != nil && strings.Contains(fc.con.AllText, "calls(") {
		if st.calls == nil {
			st.calls = map[string]string{}
		}
		// only the callees that the loop body calls
		inBody := map[string]bool{}
		for b := range loopBlocks(h) {
			for _, ins := range b.Instrs {
				if ci, ok := ins.(ssa.CallInstruction); ok {
					com := ci.Common()
					if com.IsInvoke() {
						inBody[com.Method.Name()] = true
					} else if sc := com.StaticCallee(); sc != nil {
						inBody[sc.Name()] = true
					}
				}
			}
		}
		for _, m := range callsRe.FindAllStringSubmatch(fc.con.AllText, -1) {
			if inBody[m[1]] {
				st.calls[m[1]] = fc.sc.fresh("calls_"+m[1], "Int")
			}
		}
	}
	if fc.discovery {
		saved := fc.activeLoops
		fc.activeLoops = nil
		fc.havocAll(st)
		fc.activeLoops = saved
	} else {
		if fc.loopHavocAll[h] {
			// the body contains whole-heap havocs: forget everything except what all
			// of them keep; names the body writes directly are forgotten below
			saved := fc.activeLoops
			fc.activeLoops = nil // (this havoc is the loop head itself, not an event inside another iteration)
			fc.havocAllBut(st, fc.loopKeep[h])
			fc.activeLoops = saved
		}
		names := make([]string, 0)
		for n := range fc.loopWrites[h] {
			names = append(names, n)
		}
		sort.Strings(names)
		for _, n := range names {
			srt := fc.sorts[n]
			if srt == "" {
				continue
			}
			if n == "Alloc" {
				// allocation only grows
				old := fc.heapTerm(st, n, srt)
				nw := fc.sc.fresh("alloc_l", srt)
				fc.sc.assume("(forall ((r Int)) (! (=> (select " + old + " r) (select " + nw + " r)) :pattern ((select " + nw + " r))))")
				st.heap[n] = nw
				continue
			}
			st.heap[n] = fc.sc.fresh(n+"_l", srt)
		}
	}
	cells := fc.loopCellW[h]
	if fc.discovery {
		for c := range st.cells {
			st.cells[c] = fc.freshVal(st, fc.cellType[c], "cell_l")
		}
	}
	ids := make([]int, 0)
	for c := range cells {
		ids = append(ids, c)
	}
	sort.Ints(ids)
	for _, c := range ids {
		if t, ok := fc.cellType[c]; ok {
			st.cells[c] = fc.freshVal(st, t, "cell_l")
		}
	}
}

// intersectPrefixes: the heap-name prefixes kept by both lists.
func intersectPrefixes(a, b []string) []string {
	var out []string
	seen := map[string]bool{}
	for _, p := range a {
		for _, q := range b {
			if strings.HasPrefix(p, q) && !seen[p] {
				seen[p] = true
				out = append(out, p)
			} else if strings.HasPrefix(q, p) && !seen[q] {
				seen[q] = true
				out = append(out, q)
			}
		}
	}
	return out
}

// havocAll forgets the entire heap except allocation monotonicity.
func (fc *FnCtx) havocAll(st *State) { fc.havocAllBut(st, nil) }

// havocAllBut forgets everything except heap names with one of the prefixes.
func (fc *FnCtx) havocAllBut(st *State, prefixes []string) {
	old := fc.alloc(st)
	keep := map[string]string{}
	var kp []string
	for p := range fc.immut {
		kp = append(kp, p)
	}
	sort.Strings(kp)
	kp = append(kp, prefixes...)
	// constructor-only fields (structinv: checked to be written by their constructors only) survive any havoc
	for _, si := range fc.eng.structInvs {
		var fs []string
		for f := range si.fields {
			if si.stable[f] {
				fs = append(fs, f)
			}
		}
		sort.Strings(fs)
		for _, f := range fs {
			kp = append(kp, "H$"+typeName(si.rootType)+"$"+f)
		}
	}
	for _, n := range sortedKeys(st.heap) {
		for _, p := range kp {
			if strings.HasPrefix(n, p) {
				keep[n] = st.heap[n]
			}
		}
	}
	// loops: what every whole-heap havoc of the body keeps survives the loop head too
	for _, h := range fc.activeLoops {
		if fc.loopKeep == nil {
			fc.loopKeep = map[*ssa.BasicBlock][]string{}
			fc.loopKeepSet = map[*ssa.BasicBlock]bool{}
		}
		if !fc.loopKeepSet[h] {
			fc.loopKeepSet[h] = true
			fc.loopKeep[h] = append([]string{}, kp...)
		} else {
			fc.loopKeep[h] = intersectPrefixes(fc.loopKeep[h], kp)
		}
	}
	// every other name, touched or not, gets a new initial value: new epoch.
	fc.nEpoch++
	st.ep = &epoch{id: fc.nEpoch, keep: kp, parent: st.ep}
	st.heap = keep
	fc.havocAllSeen = true
	nw := fc.alloc(st)
	fc.sc.assume("(forall ((r Int)) (! (=> (select " + old + " r) (select " + nw + " r)) :pattern ((select " + nw + " r))))")
}
