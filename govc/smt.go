package main

// SMT-LIB2 term construction (terms are strings) and the per-function script.

import (
	"fmt"
	"math/big"
	"regexp"
	"sort"
	"strings"
)

func sx(op string, args ...string) string {
	return "(" + op + " " + strings.Join(args, " ") + ")"
}

func num(n int64) string {
	if n < 0 {
		return fmt.Sprintf("(- %d)", -n)
	}
	return fmt.Sprintf("%d", n)
}

func bigNum(b *big.Int) string {
	if b.Sign() < 0 {
		return "(- " + new(big.Int).Neg(b).String() + ")"
	}
	return b.String()
}

func tAnd(args ...string) string {
	var out []string
	for _, a := range args {
		if a == "true" || a == "" {
			continue
		}
		if a == "false" {
			return "false"
		}
		out = append(out, a)
	}
	switch len(out) {
	case 0:
		return "true"
	case 1:
		return out[0]
	}
	return sx("and", out...)
}

func tOr(args ...string) string {
	var out []string
	for _, a := range args {
		if a == "false" || a == "" {
			continue
		}
		if a == "true" {
			return "true"
		}
		out = append(out, a)
	}
	switch len(out) {
	case 0:
		return "false"
	case 1:
		return out[0]
	}
	return sx("or", out...)
}

func tNot(a string) string {
	switch a {
	case "true":
		return "false"
	case "false":
		return "true"
	}
	if strings.HasPrefix(a, "(not ") {
		return a[5 : len(a)-1]
	}
	return sx("not", a)
}

func tImp(a, b string) string {
	if a == "true" {
		return b
	}
	if a == "false" || b == "true" {
		return "true"
	}
	return sx("=>", a, b)
}

func tEq(a, b string) string {
	if a == b {
		return "true"
	}
	return sx("=", a, b)
}

func tIte(c, a, b string) string {
	if c == "true" {
		return a
	}
	if c == "false" {
		return b
	}
	if a == b {
		return a
	}
	return sx("ite", c, a, b)
}

func tSel(a, i string) string      { return sx("select", a, i) }
func tStore(a, i, v string) string { return sx("store", a, i, v) }
func tAdd(a, b string) string {
	if b == "0" {
		return a
	}
	if a == "0" {
		return b
	}
	return sx("+", a, b)
}
func tSub(a, b string) string {
	if b == "0" {
		return a
	}
	return sx("-", a, b)
}

// smtString renders a Go string (as bytes) as an SMT-LIB string literal.
func smtString(s string) string {
	var b strings.Builder
	b.WriteByte('"')
	for i := 0; i < len(s); i++ {
		c := s[i]
		switch {
		case c == '"':
			b.WriteString(`""`)
		case c == '\\':
			b.WriteString(`\u{5c}`)
		case c >= 0x20 && c < 0x7f:
			b.WriteByte(c)
		default:
			fmt.Fprintf(&b, `\u{%x}`, c)
		}
	}
	b.WriteByte('"')
	return b.String()
}

// ---- script ----

type ItemKind int

const (
	ItAssume ItemKind = iota
	ItCheck
)

type Item struct {
	Kind  ItemKind
	Term  string // assume: formula; check: formula to prove valid
	Obl   *Obligation
	Decls []string // declarations emitted before this item
}

type Obligation struct {
	Name      string   // stable line-free name
	Kind      string   // index, slice, nil, panic, ensures, requires, invariant, frame, ...
	Fn        string   // function under verification
	Props     []string // property ids this obligation serves
	Pos       string   // file:line (informational only)
	Candidate bool     // houdini candidate: failure drops it silently
	CandKey   string
	Cover     bool // expected SAT (vacuity guard): passes iff sat
	Quant     bool
	// results
	Status    string // unsat (proved), sat, unknown, timeout
	Backend   string
	TimeS     float64
	Model     string
	Output    string
	Watch     []string // terms to (get-value) on sat
	SMTSize   int
	ReplayGo  string // generated test replaying the counterexample on the real code
	ReplayPkg string // package directory relative to the repository root
	ReplayWhy string // why no replay could be generated
}

type Script struct {
	sorts  map[string]string // const name -> sort
	decl   []string          // pending declarations
	items  []*Item
	nfresh int
	funs   map[string]bool
	seen   map[string]bool
}

func newScript() *Script {
	return &Script{sorts: map[string]string{}, funs: map[string]bool{}}
}

func (s *Script) fresh(prefix, sort string) string {
	s.nfresh++
	name := fmt.Sprintf("%s!%d", sanitize(prefix), s.nfresh)
	s.declare(name, sort)
	return name
}

func (s *Script) declare(name, sort string) {
	if _, ok := s.sorts[name]; ok {
		return
	}
	s.sorts[name] = sort
	s.decl = append(s.decl, fmt.Sprintf("(declare-const %s %s)", name, sort))
}

func (s *Script) declareFun(name string, args []string, ret string) {
	if s.funs[name] {
		return
	}
	s.funs[name] = true
	s.decl = append(s.decl, fmt.Sprintf("(declare-fun %s (%s) %s)", name, strings.Join(args, " "), ret))
}

var qvarRe = regexp.MustCompile(`q[0-9]+_[A-Za-z0-9_]+`)

// unboundQVar: the term mentions a spec quantifier variable outside its binder
// (e.g. a type invariant emitted for a heap load under a quantifier).
func unboundQVar(t string) bool {
	for _, v := range qvarRe.FindAllString(t, -1) {
		if !strings.Contains(t, "("+v+" Int)") && !strings.Contains(t, "("+v+" Bool)") && !strings.Contains(t, "("+v+" String)") {
			return true
		}
	}
	return false
}

func (s *Script) assume(t string) {
	if t == "true" {
		return
	}
	if unboundQVar(t) {
		return // side fact about a quantified term: cannot be stated at top level
	}
	if s.seen == nil {
		s.seen = map[string]bool{}
	}
	if s.seen[t] {
		return
	}
	s.seen[t] = true
	s.items = append(s.items, &Item{Kind: ItAssume, Term: t, Decls: s.decl})
	s.decl = nil
}

func (s *Script) check(t string, o *Obligation) {
	s.items = append(s.items, &Item{Kind: ItCheck, Term: t, Obl: o, Decls: s.decl})
	s.decl = nil
}

func sanitize(s string) string {
	var b strings.Builder
	for _, c := range s {
		switch {
		case c >= 'a' && c <= 'z', c >= 'A' && c <= 'Z', c >= '0' && c <= '9', c == '_', c == '.', c == '$':
			b.WriteRune(c)
		default:
			b.WriteByte('_')
		}
	}
	return b.String()
}

const prelude = `(set-option :produce-models true)
(set-logic ALL)
(define-fun wrapu ((x Int) (m Int)) Int (ite (and (<= 0 x) (< x m)) x (mod x m)))
(define-fun wraps ((x Int) (h Int)) Int (ite (and (<= (- h) x) (< x h)) x (- (mod (+ x h) (* 2 h)) h)))
(define-fun inr ((x Int) (lo Int) (hi Int)) Bool (and (<= lo x) (<= x hi)))
(declare-fun bitand (Int Int) Int)
(declare-fun bitor (Int Int) Int)
(declare-fun bitxor (Int Int) Int)
(declare-fun shl (Int Int) Int)
(declare-fun shr (Int Int) Int)
(declare-fun str_of_bytes ((Array Int Int) Int Int) String)
(declare-fun bytes_of_str (String) (Array Int Int))
(declare-fun cat_any (String String) String)
`

// render produces the incremental script. Obligations after a check are assumed
// (standard assert-then-assume), so each check sees only what precedes it.
func (s *Script) render(timeoutMs int, only map[*Obligation]bool) (string, []*Obligation) {
	var b strings.Builder
	b.WriteString(prelude)
	var order []*Obligation
	for _, it := range s.items {
		for _, d := range it.Decls {
			b.WriteString(d)
			b.WriteByte('\n')
		}
		switch it.Kind {
		case ItAssume:
			fmt.Fprintf(&b, "(assert %s)\n", it.Term)
		case ItCheck:
			o := it.Obl
			if only == nil || only[o] {
				order = append(order, o)
				b.WriteString("(push 1)\n")
				if o.Cover {
					fmt.Fprintf(&b, "(assert %s)\n", it.Term)
				} else {
					fmt.Fprintf(&b, "(assert (not %s))\n", it.Term)
				}
				fmt.Fprintf(&b, "(echo \"@@ %d\")\n", len(order)-1)
				b.WriteString("(check-sat)\n")
				if len(o.Watch) > 0 && !o.Cover {
					ws := append([]string{}, o.Watch...)
					sort.Strings(ws)
					fmt.Fprintf(&b, "(echo \"@@model\")\n(get-value (%s))\n", strings.Join(ws, " "))
				}
				b.WriteString("(pop 1)\n")
			}
			if !o.Cover && !o.Candidate {
				fmt.Fprintf(&b, "(assert %s)\n", it.Term)
			}
		}
	}
	return b.String(), order
}

// renderSingle produces a non-incremental script for one obligation: everything
// that precedes it, then the negated goal and one check-sat (no push/pop, nothing after).
func (s *Script) renderSingle(target *Obligation, model bool) string {
	var b strings.Builder
	b.WriteString(prelude)
	for _, it := range s.items {
		for _, d := range it.Decls {
			b.WriteString(d)
			b.WriteByte('\n')
		}
		switch it.Kind {
		case ItAssume:
			fmt.Fprintf(&b, "(assert %s)\n", it.Term)
		case ItCheck:
			o := it.Obl
			if o == target {
				if o.Cover {
					fmt.Fprintf(&b, "(assert %s)\n", it.Term)
				} else {
					fmt.Fprintf(&b, "(assert (not %s))\n", it.Term)
				}
				b.WriteString("(echo \"@@ 0\")\n(check-sat)\n")
				if model {
					b.WriteString("(get-model)\n")
				}
				return b.String()
			}
			if !o.Cover && !o.Candidate {
				fmt.Fprintf(&b, "(assert %s)\n", it.Term)
			}
		}
	}
	return b.String()
}
