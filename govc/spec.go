package main

// Specification expressions: Go expression syntax (parsed by go/parser) plus
//   a ==> b, a <==> b, forall i int :: body, exists i int :: body,
//   old(e), len/cap, fresh(p), elems-style helpers (see evalCall).
// Integers in specifications are mathematical (no wrap-around); conversions
// such as uint16(e) wrap exactly like Go.

import (
	"fmt"
	"go/ast"
	"go/constant"
	"go/parser"
	"go/token"
	"go/types"
	"strconv"
	"strings"
)

type Spec interface{}

type SImp struct{ L, R Spec }
type SIff struct{ L, R Spec }
type SAnd struct{ L, R Spec }
type SOr struct{ L, R Spec }
type SNot struct{ X Spec }
type SQuant struct {
	Forall bool
	Vars   []string
	Sorts  []string
	Body   Spec
}
type SGo struct{ E ast.Expr }

func findTop(s, op string) int {
	depth := 0
	inStr := false
	for i := 0; i+len(op) <= len(s); i++ {
		c := s[i]
		if inStr {
			if c == '\\' {
				i++
			} else if c == '"' {
				inStr = false
			}
			continue
		}
		switch c {
		case '"':
			inStr = true
		case '(', '[', '{':
			depth++
		case ')', ']', '}':
			depth--
		}
		if depth == 0 && strings.HasPrefix(s[i:], op) {
			// do not match "==>" inside "<==>"
			if op == "==>" && i > 0 && s[i-1] == '<' {
				continue
			}
			return i
		}
	}
	return -1
}

func findTopLast(s, op string) int {
	last := -1
	off := 0
	for {
		i := findTop(s[off:], op)
		if i < 0 {
			return last
		}
		last = off + i
		off = last + len(op)
	}
}

func needsSpecial(s string) bool {
	return strings.Contains(s, "==>") || strings.Contains(s, "forall ") || strings.Contains(s, "exists ")
}

func parseSpec(s string) (Spec, error) {
	s = strings.TrimSpace(s)
	if s == "" {
		return nil, fmt.Errorf("empty spec")
	}
	if strings.HasPrefix(s, "forall ") || strings.HasPrefix(s, "exists ") {
		i := findTop(s, "::")
		if i < 0 {
			return nil, fmt.Errorf("quantifier without ::")
		}
		q := &SQuant{Forall: strings.HasPrefix(s, "forall ")}
		for _, b := range splitTop(s[7:i], ',') {
			f := strings.Fields(b)
			if len(f) != 2 {
				return nil, fmt.Errorf("bad binder %q", b)
			}
			q.Vars = append(q.Vars, f[0])
			switch f[1] {
			case "bool":
				q.Sorts = append(q.Sorts, "Bool")
			case "string":
				q.Sorts = append(q.Sorts, "String")
			default:
				q.Sorts = append(q.Sorts, "Int")
			}
		}
		body, err := parseSpec(s[i+2:])
		if err != nil {
			return nil, err
		}
		q.Body = body
		return q, nil
	}
	if i := findTop(s, "<==>"); i >= 0 {
		l, err := parseSpec(s[:i])
		if err != nil {
			return nil, err
		}
		r, err := parseSpec(s[i+4:])
		if err != nil {
			return nil, err
		}
		return &SIff{l, r}, nil
	}
	if i := findTop(s, "==>"); i >= 0 {
		l, err := parseSpec(s[:i])
		if err != nil {
			return nil, err
		}
		r, err := parseSpec(s[i+3:])
		if err != nil {
			return nil, err
		}
		return &SImp{l, r}, nil
	}
	if needsSpecial(s) {
		if i := findTopLast(s, "||"); i >= 0 {
			l, err := parseSpec(s[:i])
			if err != nil {
				return nil, err
			}
			r, err := parseSpec(s[i+2:])
			if err != nil {
				return nil, err
			}
			return &SOr{l, r}, nil
		}
		if i := findTopLast(s, "&&"); i >= 0 {
			l, err := parseSpec(s[:i])
			if err != nil {
				return nil, err
			}
			r, err := parseSpec(s[i+2:])
			if err != nil {
				return nil, err
			}
			return &SAnd{l, r}, nil
		}
		if s[0] == '!' {
			x, err := parseSpec(s[1:])
			if err != nil {
				return nil, err
			}
			return &SNot{x}, nil
		}
		if s[0] == '(' && matchingParen(s) == len(s)-1 {
			return parseSpec(s[1 : len(s)-1])
		}
		return nil, fmt.Errorf("cannot parse %q (==>/forall must be at top level, inside parentheses, or under && / ||)", s)
	}
	e, err := parser.ParseExpr(s)
	if err != nil {
		return nil, fmt.Errorf("%q: %v", s, err)
	}
	return &SGo{e}, nil
}

func matchingParen(s string) int {
	depth := 0
	for i := 0; i < len(s); i++ {
		switch s[i] {
		case '(':
			depth++
		case ')':
			depth--
			if depth == 0 {
				return i
			}
		}
	}
	return -1
}

// ---------- evaluation ----------

type SpecEnv struct {
	fc          *FnCtx
	st          *State
	old         *State
	prevVars    map[string]Val // loop-variable bindings at the loop head (used inside prev())
	inPrev      bool
	vars        map[string]Val
	pkg         *types.Package
	fr          *Frame
	bound       map[string]Val
	quant       bool // set when a quantifier was used
	what        string
	prev        *State // state at the loop head (for prev() in step clauses)
	assumeLocks bool   // evaluating a requires being assumed: unknown lock states become symbolic
	inOld       bool   // inside old(): parameter names denote entry values even if a loop variable shadows them
}

func (env *SpecEnv) with(st *State) *SpecEnv {
	n := *env
	n.st = st
	return &n
}

type specErr struct{ msg string }

func (env *SpecEnv) fail(format string, a ...interface{}) {
	panic(specErr{fmt.Sprintf("spec %q: ", env.what) + fmt.Sprintf(format, a...)})
}

func (env *SpecEnv) evalBool(s Spec) string {
	v := env.eval(s)
	if v.K != KBool {
		env.fail("expected a boolean, got kind %d", v.K)
	}
	return v.S
}

func (env *SpecEnv) eval(s Spec) Val {
	switch t := s.(type) {
	case *SImp:
		return boolVal(tImp(env.evalBool(t.L), env.evalBool(t.R)))
	case *SIff:
		return boolVal(tEq(env.evalBool(t.L), env.evalBool(t.R)))
	case *SAnd:
		return boolVal(tAnd(env.evalBool(t.L), env.evalBool(t.R)))
	case *SOr:
		return boolVal(tOr(env.evalBool(t.L), env.evalBool(t.R)))
	case *SNot:
		return boolVal(tNot(env.evalBool(t.X)))
	case *SQuant:
		n := *env
		n.bound = map[string]Val{}
		for k, v := range env.bound {
			n.bound[k] = v
		}
		var bs []string
		for i, name := range t.Vars {
			env.fc.nq++
			vn := fmt.Sprintf("q%d_%s", env.fc.nq, name)
			bs = append(bs, "("+vn+" "+t.Sorts[i]+")")
			switch t.Sorts[i] {
			case "Bool":
				n.bound[name] = boolVal(vn)
			case "String":
				n.bound[name] = strVal(types.Typ[types.String], vn)
			default:
				n.bound[name] = intVal(types.Typ[types.Int], vn)
			}
		}
		body := n.evalBool(t.Body)
		env.quant = true
		q := "forall"
		if !t.Forall {
			q = "exists"
		}
		return boolVal("(" + q + " (" + strings.Join(bs, " ") + ") " + body + ")")
	case *SGo:
		return env.expr(t.E)
	}
	env.fail("bad spec node %T", s)
	return Val{}
}

var untypedInt = types.Typ[types.UntypedInt]

func (env *SpecEnv) expr(e ast.Expr) Val {
	fc := env.fc
	switch t := e.(type) {
	case *ast.ParenExpr:
		return env.expr(t.X)
	case *ast.BasicLit:
		switch t.Kind {
		case token.INT:
			v := constant.MakeFromLiteral(t.Value, token.INT, 0)
			return intVal(untypedInt, v.ExactString())
		case token.STRING:
			s, _ := strconv.Unquote(t.Value)
			return strVal(types.Typ[types.String], smtString(s))
		case token.CHAR:
			r, _, _, _ := strconv.UnquoteChar(t.Value[1:len(t.Value)-1], '\'')
			return intVal(untypedInt, num(int64(r)))
		}
	case *ast.Ident:
		return env.ident(t)
	case *ast.SelectorExpr:
		if id, ok := t.X.(*ast.Ident); ok {
			if _, isVar := env.lookupVar(id.Name); !isVar {
				if p := env.importedPkg(id.Name); p != nil {
					return env.pkgMember(p, t.Sel.Name)
				}
			}
		}
		x := env.expr(t.X)
		return env.selectField(x, t.Sel.Name)
	case *ast.StarExpr:
		x := env.expr(t.X)
		if x.K != KAddr {
			env.fail("deref of non-pointer")
		}
		return fc.load(env.st, x.A)
	case *ast.UnaryExpr:
		x := env.expr(t.X)
		switch t.Op {
		case token.NOT:
			return boolVal(tNot(x.S))
		case token.SUB:
			return intVal(x.T, sx("-", x.S))
		case token.AND:
			env.fail("& not supported in specs")
		}
	case *ast.BinaryExpr:
		return env.binary(t)
	case *ast.IndexExpr:
		x := env.expr(t.X)
		i := env.expr(t.Index)
		switch x.K {
		case KSlice:
			et := x.T.Underlying().(*types.Slice).Elem()
			return fc.load(env.st, &Addr{Kind: AElem, Base: x.Arr, Idx: tAdd(x.Off, i.S), ElemT: et, T: et})
		case KStr:
			return intVal(types.Typ[types.Uint8], sx("str.to_code", sx("str.at", x.S, i.S)))
		case KInt:
			if mt, ok := x.T.Underlying().(*types.Map); ok {
				has := fc.mapHas(env.st, x, i)
				return fc.mergeVal(has, fc.mapGet(env.st, x, i), zeroVal(mt.Elem()))
			}
		case KAddr:
			if arr, ok := x.A.T.Underlying().(*types.Array); ok {
				a := *x.A
				a.Idx, a.IdxAt, a.T = i.S, len(a.Path), arr.Elem()
				if a.Kind == AElem {
					a = Addr{Kind: AElem, Base: x.A.Base, Idx: i.S, ElemT: arr.Elem(), T: arr.Elem()}
				}
				return fc.load(env.st, &a)
			}
		}
		env.fail("index of kind %d", x.K)
	case *ast.SliceExpr:
		x := env.expr(t.X)
		if x.K == KStr {
			lo, hi := "0", sx("str.len", x.S)
			if t.Low != nil {
				lo = env.expr(t.Low).S
			}
			if t.High != nil {
				hi = env.expr(t.High).S
			}
			return strVal(x.T, sx("str.substr", x.S, lo, tSub(hi, lo)))
		}
		if x.K != KSlice {
			env.fail("slice expression on kind %d", x.K)
		}
		lo, hi := "0", x.Len
		if t.Low != nil {
			lo = env.expr(t.Low).S
		}
		if t.High != nil {
			hi = env.expr(t.High).S
		}
		return Val{K: KSlice, T: x.T, Arr: x.Arr, Off: tAdd(x.Off, lo), Len: tSub(hi, lo), Cap: tSub(x.Cap, lo)}
	case *ast.CallExpr:
		return env.call(t)
	case *ast.TypeAssertExpr:
		x := env.expr(t.X)
		tt := env.resolveType(t.Type)
		return fc.unbox(env.st, x.S, tt)
	}
	env.fail("unsupported expression %s (%T)", types.ExprString(e), e)
	return Val{}
}

func (env *SpecEnv) lookupVar(name string) (Val, bool) {
	if v, ok := env.bound[name]; ok {
		return v, true
	}
	if env.inOld && env.fr != nil && env.fr.parent == nil {
		if v, ok := env.fc.params[name]; ok {
			return v, true
		}
	}
	if v, ok := env.vars[name]; ok {
		return v, true
	}
	return Val{}, false
}

func (env *SpecEnv) importedPkg(name string) *types.Package {
	if env.pkg == nil {
		return nil
	}
	for _, imp := range env.pkg.Imports() {
		if imp.Name() == name {
			return imp
		}
	}
	// allow fully spelled well-known packages even if not imported
	if p := env.fc.eng.pkgByName(name); p != nil {
		return p
	}
	return nil
}

func (env *SpecEnv) pkgMember(p *types.Package, name string) Val {
	obj := p.Scope().Lookup(name)
	if obj == nil {
		env.fail("%s.%s not found", p.Name(), name)
	}
	return env.object(obj)
}

func (env *SpecEnv) object(obj types.Object) Val {
	fc := env.fc
	switch o := obj.(type) {
	case *types.Const:
		switch kindOf(o.Type()) {
		case KBool:
			return boolVal(fmt.Sprint(constant.BoolVal(o.Val())))
		case KStr:
			return strVal(o.Type(), smtString(constant.StringVal(o.Val())))
		case KInt:
			if o.Val().Kind() == constant.Int {
				return intVal(o.Type(), negLit(o.Val().ExactString()))
			}
		}
	case *types.Var:
		sp := fc.eng.prog.Package(o.Pkg())
		if sp == nil {
			env.fail("package of %s not loaded", o.Name())
		}
		g, ok := sp.Members[o.Name()].(*ssaGlobal)
		if !ok {
			env.fail("%s is not a global", o.Name())
		}
		pt := g.Type().(*types.Pointer).Elem()
		return fc.load(env.st, &Addr{Kind: AGlobal, Global: g, Root: pt, T: pt})
	case *types.Nil:
		return Val{K: KInt, T: types.Typ[types.UntypedNil], S: "0"}
	}
	env.fail("unsupported object %s", obj)
	return Val{}
}

func negLit(s string) string {
	if strings.HasPrefix(s, "-") {
		return "(- " + s[1:] + ")"
	}
	return s
}

func (env *SpecEnv) ident(id *ast.Ident) Val {
	switch id.Name {
	case "true", "false":
		return boolVal(id.Name)
	case "nil":
		return Val{K: KInt, T: types.Typ[types.UntypedNil], S: "0"}
	}
	if v, ok := env.lookupVar(id.Name); ok {
		return v
	}
	if env.fr != nil {
		if sv, ok := env.fr.names[id.Name]; ok {
			if v, ok := env.fr.vals[sv]; ok {
				return v
			}
		}
		if alt, ok := env.fc.rebind[id.Name]; ok {
			if v, ok := env.lookupVar(alt); ok {
				return v
			}
			if sv, ok := env.fr.names[alt]; ok {
				if v, ok := env.fr.vals[sv]; ok {
					return v
				}
			}
		}
	}
	if env.pkg != nil {
		if obj := env.pkg.Scope().Lookup(id.Name); obj != nil {
			return env.object(obj)
		}
	}
	if obj := types.Universe.Lookup(id.Name); obj != nil {
		if c, ok := obj.(*types.Const); ok {
			return env.object(c)
		}
	}
	env.fail("unknown identifier %s", id.Name)
	return Val{}
}

func (env *SpecEnv) resolveType(e ast.Expr) types.Type {
	switch t := e.(type) {
	case *ast.Ident:
		if obj := types.Universe.Lookup(t.Name); obj != nil {
			if tn, ok := obj.(*types.TypeName); ok {
				return tn.Type()
			}
		}
		if env.pkg != nil {
			if obj, ok := env.pkg.Scope().Lookup(t.Name).(*types.TypeName); ok {
				return obj.Type()
			}
		}
	case *ast.StarExpr:
		if bt := env.resolveType(t.X); bt != nil {
			return types.NewPointer(bt)
		}
	case *ast.SelectorExpr:
		if id, ok := t.X.(*ast.Ident); ok {
			if p := env.importedPkg(id.Name); p != nil {
				if obj, ok := p.Scope().Lookup(t.Sel.Name).(*types.TypeName); ok {
					return obj.Type()
				}
			}
		}
	case *ast.ArrayType:
		if t.Len == nil {
			if et := env.resolveType(t.Elt); et != nil {
				return types.NewSlice(et)
			}
		}
	}
	return nil
}

// selectField selects a (possibly promoted) field, auto-dereferencing pointers.
func (env *SpecEnv) selectField(x Val, name string) Val {
	fc := env.fc
	var base types.Type
	switch x.K {
	case KAddr:
		base = x.A.T
	case KStruct:
		base = x.T
	default:
		env.fail("selector .%s on kind %d (%s)", name, x.K, x.T)
	}
	pkg := env.pkg
	if n, ok := base.(*types.Named); ok && n.Obj().Pkg() != nil {
		pkg = n.Obj().Pkg()
	}
	obj, idx, _ := types.LookupFieldOrMethod(base, true, pkg, name)
	if obj == nil {
		env.fail("no field %s in %s", name, base)
	}
	if _, isVar := obj.(*types.Var); !isVar {
		env.fail("%s is a method; call it with ()", name)
	}
	cur := x
	for _, i := range idx {
		switch cur.K {
		case KAddr:
			if structOf(cur.A.T) == nil {
				env.fail("field of non-struct pointer")
			}
			// embedded pointer fields: load then continue
			st := structOf(cur.A.T)
			a := *cur.A
			a.Path = append(append([]int{}, a.Path...), i)
			a.T = st.Field(i).Type()
			if a.Kind == AOpaque {
				env.fail("field of opaque pointer")
			}
			cur = fc.load(env.st, &a)
		case KStruct:
			cur = cur.Fs[i]
		default:
			env.fail("selector path through kind %d", cur.K)
		}
	}
	return cur
}

func (env *SpecEnv) binary(t *ast.BinaryExpr) Val {
	switch t.Op {
	case token.LAND:
		return boolVal(tAnd(env.expr(t.X).S, env.expr(t.Y).S))
	case token.LOR:
		return boolVal(tOr(env.expr(t.X).S, env.expr(t.Y).S))
	}
	x, y := env.expr(t.X), env.expr(t.Y)
	switch t.Op {
	case token.EQL, token.NEQ:
		eq := env.specEq(x, y)
		if t.Op == token.NEQ {
			eq = tNot(eq)
		}
		return boolVal(eq)
	}
	if x.K == KStr && t.Op == token.ADD {
		return strVal(x.T, sx("str.++", x.S, y.S))
	}
	if x.K != KInt || y.K != KInt {
		env.fail("operator %s on kinds %d,%d", t.Op, x.K, y.K)
	}
	rt := x.T
	if rt == untypedInt {
		rt = y.T
	}
	switch t.Op {
	case token.LSS:
		return boolVal(sx("<", x.S, y.S))
	case token.LEQ:
		return boolVal(sx("<=", x.S, y.S))
	case token.GTR:
		return boolVal(sx(">", x.S, y.S))
	case token.GEQ:
		return boolVal(sx(">=", x.S, y.S))
	case token.ADD:
		return intVal(rt, sx("+", x.S, y.S))
	case token.SUB:
		return intVal(rt, sx("-", x.S, y.S))
	case token.MUL:
		return intVal(rt, sx("*", x.S, y.S))
	case token.QUO:
		q, _ := goDivRem(x.S, y.S)
		return intVal(rt, q)
	case token.REM:
		_, r := goDivRem(x.S, y.S)
		return intVal(rt, r)
	case token.AND:
		return intVal(rt, env.fc.bitAnd(x.S, y.S, types.Typ[types.Int64]))
	case token.SHL:
		if k, ok := constInt(y.S); ok {
			return intVal(rt, sx("*", x.S, pow2(k.Int64()).String()))
		}
	case token.SHR:
		if k, ok := constInt(y.S); ok {
			return intVal(rt, sx("div", x.S, pow2(k.Int64()).String()))
		}
	}
	env.fail("unsupported operator %s", t.Op)
	return Val{}
}

// specEq: equality in specifications. Slices compare as (array, offset,
// length, capacity) tuples; nil compares by kind.
func (env *SpecEnv) specEq(x, y Val) string {
	isNil := func(v Val) bool { return v.K == KInt && v.T == types.Typ[types.UntypedNil] }
	if isNil(x) {
		x, y = y, x
	}
	if isNil(y) {
		switch x.K {
		case KSlice:
			return tEq(x.Arr, "0")
		case KIface:
			return tEq(x.Tag, "0")
		case KAddr:
			var addrNil func(a *Addr) string
			addrNil = func(a *Addr) string {
				if a.Alt != nil {
					p := *a
					p.Alt, p.AltCond = nil, ""
					return tIte(a.AltCond, addrNil(&p), addrNil(a.Alt))
				}
				if len(a.Path) > 0 || a.Kind == AGlobal || a.Kind == ACell {
					return "false"
				}
				return tEq(a.Base, "0")
			}
			return addrNil(x.A)
		case KInt:
			return tEq(x.S, "0")
		case KFunc:
			if x.Fn != nil {
				return "false"
			}
			return tEq(x.S, "0")
		}
		env.fail("nil comparison on kind %d", x.K)
	}
	if x.K == KSlice && y.K == KSlice {
		return tAnd(tEq(x.Arr, y.Arr), tEq(x.Off, y.Off), tEq(x.Len, y.Len), tEq(x.Cap, y.Cap))
	}
	if x.K != y.K {
		env.fail("== on different kinds %d,%d", x.K, y.K)
	}
	return env.fc.valEq(x, y)
}

func (env *SpecEnv) call(c *ast.CallExpr) Val {
	fc := env.fc
	if id, ok := c.Fun.(*ast.Ident); ok {
		switch id.Name {
		case "old":
			if env.old == nil {
				env.fail("old() not available here")
			}
			n := env.with(env.old)
			n.inOld = true
			return n.expr(c.Args[0])
		case "prev":
			if env.prev == nil {
				env.fail("prev() is only available in loop step clauses")
			}
			n := env.with(env.prev)
			if env.prevVars != nil {
				n.vars = env.prevVars
				n.inPrev = true
			}
			return n.expr(c.Args[0])
		case "len":
			x := env.expr(c.Args[0])
			switch x.K {
			case KSlice:
				return intVal(types.Typ[types.Int], x.Len)
			case KStr:
				return intVal(types.Typ[types.Int], sx("str.len", x.S))
			case KInt:
				return intVal(types.Typ[types.Int], fc.mapLen(env.st, x))
			case KAddr:
				if arr, ok := x.A.T.Underlying().(*types.Array); ok {
					return intVal(types.Typ[types.Int], num(arr.Len()))
				}
			}
			env.fail("len of kind %d", x.K)
		case "cap":
			x := env.expr(c.Args[0])
			return intVal(types.Typ[types.Int], x.Cap)
		case "arr":
			return intVal(types.Typ[types.Int], env.expr(c.Args[0]).Arr)
		case "off":
			return intVal(types.Typ[types.Int], env.expr(c.Args[0]).Off)
		case "fresh":
			x := env.expr(c.Args[0])
			if env.old == nil {
				env.fail("fresh() needs an old state")
			}
			var ref string
			switch x.K {
			case KAddr:
				ref = x.A.Base
			case KSlice:
				ref = x.Arr
			case KInt:
				ref = x.S
			default:
				env.fail("fresh of kind %d", x.K)
			}
			return boolVal(tAnd(tNot(tEq(ref, "0")), tNot(tSel(fc.alloc(env.old), ref)), tSel(fc.alloc(env.st), ref)))
		case "has": // has(m, k): key present in map
			m, k := env.expr(c.Args[0]), env.expr(c.Args[1])
			return boolVal(fc.mapHas(env.st, m, k))
		case "istype": // istype(x, T): dynamic type of interface x is exactly T
			x := env.expr(c.Args[0])
			tt := env.resolveType(c.Args[1])
			if tt == nil {
				env.fail("unknown type %s", types.ExprString(c.Args[1]))
			}
			return boolVal(tEq(x.Tag, fc.tagOf(tt)))
		case "implies":
			return boolVal(tImp(env.expr(c.Args[0]).S, env.expr(c.Args[1]).S))
		case "calls": // calls(F): how many calls of the callee named F the function's own body has made so far (0 in old())
			id2, ok := c.Args[0].(*ast.Ident)
			if !ok || len(c.Args) != 1 {
				env.fail("calls(F) takes a callee name")
			}
			if env.inOld || env.st == nil || env.st.calls == nil {
				return intVal(types.Typ[types.Int], "0")
			}
			if t, ok := env.st.calls[id2.Name]; ok {
				return intVal(types.Typ[types.Int], t)
			}
			return intVal(types.Typ[types.Int], "0")
		case "ite":
			cnd, a, b := env.expr(c.Args[0]), env.expr(c.Args[1]), env.expr(c.Args[2])
			return fc.mergeVal(cnd.S, a, b)
		case "contains": // contains(s, sub) on strings
			return boolVal(sx("str.contains", env.expr(c.Args[0]).S, env.expr(c.Args[1]).S))
		case "sameelems": // sameelems(s, t): same length and pointwise equal scalar elements
			a, b := env.expr(c.Args[0]), env.expr(c.Args[1])
			return boolVal(env.sameElems(a, b))
		case "samebytes": // samebytes(dst, doff, src, soff, n): dst[doff+k] == src[soff+k] for 0 <= k < n; src may be old(...)
			d, doff := env.expr(c.Args[0]), env.expr(c.Args[1])
			senv := env
			sa := c.Args[2]
			if ce, ok := sa.(*ast.CallExpr); ok {
				if id, ok := ce.Fun.(*ast.Ident); ok && id.Name == "old" && env.old != nil {
					senv = env.with(env.old)
					sa = ce.Args[0]
				}
			}
			sv, soff, n := senv.expr(sa), env.expr(c.Args[3]), env.expr(c.Args[4])
			fc.nq++
			k := fmt.Sprintf("q%d_k", fc.nq)
			innerD := tSel(fc.elemArray(env.st, d), d.Arr)
			innerS := tSel(fc.elemArray(senv.st, sv), sv.Arr)
			lo := tAdd(d.Off, doff.S)
			env.quant = true
			return boolVal("(forall ((" + k + " Int)) (! (=> (and (<= " + lo + " " + k + ") (< " + k + " (+ " + lo + " " + n.S + "))) (= (select " + innerD + " " + k + ") (select " + innerS + " (+ (- " + k + " " + lo + ") " + tAdd(sv.Off, soff.S) + ")))) :pattern ((select " + innerD + " " + k + "))))")
		case "u8at": // u8at(s, i): byte i of slice s
			s, i := env.expr(c.Args[0]), env.expr(c.Args[1])
			fc.byteAxiom(fc.elemArray(env.st, s))
			return intVal(types.Typ[types.Int], tSel(tSel(fc.elemArray(env.st, s), s.Arr), tAdd(s.Off, i.S)))
		case "bytestr": // the string made of the bytes of a slice (Go's string(b))
			b := env.expr(c.Args[0])
			return strVal(types.Typ[types.String], sx("str_of_bytes", tSel(fc.elemArray(env.st, b), b.Arr), b.Off, b.Len))
		case "be16": // big-endian 16-bit value at s[i:]
			s, i := env.expr(c.Args[0]), env.expr(c.Args[1])
			return intVal(types.Typ[types.Int], beTerm(fc, env.st, s, i.S, 2))
		case "be32":
			s, i := env.expr(c.Args[0]), env.expr(c.Args[1])
			return intVal(types.Typ[types.Int], beTerm(fc, env.st, s, i.S, 4))
		case "be64":
			s, i := env.expr(c.Args[0]), env.expr(c.Args[1])
			return intVal(types.Typ[types.Int], beTerm(fc, env.st, s, i.S, 8))
		case "ctxerr": // the error a context reports once it is done (Canceled or DeadlineExceeded for library contexts)
			return ctxErrVal(fc, env.expr(c.Args[0]), types.Universe.Lookup("error").Type())
		case "dl": // deadline (Unix nanoseconds) of a context value
			d, _ := ctxDl(fc, env.expr(c.Args[0]))
			return intVal(untypedInt, d)
		case "hasdl": // whether a context value has a deadline
			_, h := ctxDl(fc, env.expr(c.Args[0]))
			return boolVal(h)
		case "nanos": // Unix nanoseconds of a time.Time value
			return intVal(untypedInt, tnanos(fc, env.expr(c.Args[0])))
		case "tagof": // dynamic type tag of an interface value
			return intVal(untypedInt, env.expr(c.Args[0]).Tag)
		case "valof": // payload identity of an interface value
			return intVal(untypedInt, env.expr(c.Args[0]).S)
		case "ref": // object identity
			return intVal(untypedInt, refOf(env.expr(c.Args[0])))
		case "locked", "wlocked": // locked(x): the monitor lock of object x is held (optionally locked(x, "Monitor.name")); wlocked: held for writing (lock classes)
			x := env.expr(c.Args[0])
			if x.K != KAddr {
				env.fail("locked() needs a pointer")
			}
			var mon *Monitor
			for _, m := range fc.eng.monitors {
				if types.Identical(x.A.T, m.rootType) {
					if len(c.Args) > 1 {
						if bl, ok := c.Args[1].(*ast.BasicLit); ok && strings.Trim(bl.Value, "\"") != m.Name {
							continue
						}
					}
					mon = m
					break
				}
			}
			if mon == nil {
				// no monitor: a mutex of a declared lock class (lockclass T.mutex nonblocking) is tracked too
				if n := namedOf(x.A.T); n != nil && n.Obj().Pkg() != nil {
					pre := n.Obj().Pkg().Path() + "." + n.Obj().Name() + "."
					var cks []string
					for ck := range fc.eng.lockClasses {
						if strings.HasPrefix(ck, pre) {
							cks = append(cks, ck)
						}
					}
					if len(cks) == 1 {
						key := cks[0] + "@" + x.A.Base
						if id.Name == "wlocked" {
							key = "W|" + key
						}
						if t, ok := env.st.nbLocks[key]; ok {
							return boolVal(t)
						}
						if env.assumeLocks {
							if env.st.nbLocks == nil {
								env.st.nbLocks = map[string]string{}
							}
							t := fc.sc.fresh("held", "Bool")
							env.st.nbLocks[key] = t
							if id.Name == "wlocked" {
								// a lock held for writing is held
								if _, ok := env.st.nbLocks[key[2:]]; !ok {
									env.st.nbLocks[key[2:]] = t
								}
							}
							return boolVal(t)
						}
						return boolVal("false")
					}
				}
				env.fail("no monitor or single lock class declared for %s", x.A.T)
			}
			key := lockKey(mon, x.A.Base)
			t, ok := env.st.locks[key]
			if !ok {
				if env.assumeLocks {
					t = fc.sc.fresh("held", "Bool")
					env.st.locks[key] = t
				} else {
					t = fc.lockHeld(env.st, mon, x.A.Base)
				}
			}
			return boolVal(t)
		}
		// conversions to basic / named types
		if tt := env.resolveType(id); tt != nil && len(c.Args) == 1 {
			x := env.expr(c.Args[0])
			if x.K == KInt && kindOf(tt) == KInt {
				return intVal(tt, wrapTerm(tt, x.S))
			}
			if x.K == kindOf(tt) {
				x.T = tt
				return x
			}
			env.fail("conversion %s(%d)", id.Name, x.K)
		}
		// predicates
		if env.pkg != nil {
			if p := fc.eng.preds[env.pkg.Path()+"."+id.Name]; p != nil {
				return env.applyPred(p, c.Args)
			}
		}
		if g := fc.eng.ghosts[id.Name]; g != nil && g.Field {
			ref := refOf(env.expr(c.Args[0]))
			if g.Volatile && !fc.usesVolatile(g.Name) {
				env.fail("volatile ghost %s is read in a function whose own contract does not mention it", g.Name)
			}
			t := fc.loadLoc(env.st, loc{name: "GH$" + g.Name, idx: []string{ref}, sort: g.Ret})
			switch g.Ret {
			case "Bool":
				return boolVal(t)
			case "String":
				return strVal(types.Typ[types.String], t)
			}
			return intVal(untypedInt, t)
		}
		if g := fc.eng.ghosts[id.Name]; g != nil {
			var as []string
			var sorts []string
			for i, a := range c.Args {
				aenv := env
				if ce, ok := a.(*ast.CallExpr); ok {
					if id, ok := ce.Fun.(*ast.Ident); ok && id.Name == "old" && env.old != nil {
						aenv = env.with(env.old) // old(bytes): contents as they were at entry
						a = ce.Args[0]
					}
				}
				v := aenv.expr(a)
				if i < len(g.Params) && g.Params[i] == "bytes" {
					if v.K != KSlice {
						env.fail("ghost %s: argument %d must be a byte slice", g.Name, i)
					}
					as = append(as, tSel(fc.elemArray(aenv.st, v), v.Arr), v.Off, v.Len)
					continue
				}
				switch v.K {
				case KAddr:
					as = append(as, v.A.Base)
				case KSlice:
					as = append(as, v.Arr)
				default:
					as = append(as, v.S)
				}
			}
			for _, p := range g.Params {
				if p == "bytes" {
					sorts = append(sorts, "(Array Int Int)", "Int", "Int")
				} else {
					sorts = append(sorts, p)
				}
			}
			fc.sc.declareFun("g_"+g.Name, sorts, g.Ret)
			t := sx("g_"+g.Name, as...)
			if len(as) == 0 {
				t = "g_" + g.Name
			}
			switch g.Ret {
			case "Bool":
				return boolVal(t)
			case "String":
				return strVal(types.Typ[types.String], t)
			}
			if g.RetT != nil {
				n := *env
				n.pkg = g.Pkg
				if rt := n.resolveType(g.RetT); rt != nil && kindOf(rt) == KAddr {
					return buildVal(rt, "", func(string, string, types.Type) string { return t })
				}
			}
			return intVal(untypedInt, t)
		}
		// pure package-level Go function
		if env.pkg != nil {
			if fo, ok := env.pkg.Scope().Lookup(id.Name).(*types.Func); ok {
				return env.pureCall(fc.eng.prog.FuncValue(fo), nil, c.Args)
			}
		}
		env.fail("unknown function %s", id.Name)
	}
	if sel, ok := c.Fun.(*ast.SelectorExpr); ok {
		// package-qualified: pkg.Pred(...) / pkg.Func(...)/ conversion pkg.Type(x)
		if id, ok := sel.X.(*ast.Ident); ok {
			if _, isVar := env.lookupVar(id.Name); !isVar {
				if p := env.importedPkg(id.Name); p != nil {
					if pr := fc.eng.preds[p.Path()+"."+sel.Sel.Name]; pr != nil {
						return env.applyPred(pr, c.Args)
					}
					if tn, ok := p.Scope().Lookup(sel.Sel.Name).(*types.TypeName); ok && len(c.Args) == 1 {
						x := env.expr(c.Args[0])
						if x.K == KInt && kindOf(tn.Type()) == KInt {
							return intVal(tn.Type(), wrapTerm(tn.Type(), x.S))
						}
						x.T = tn.Type()
						return x
					}
					if fo, ok := p.Scope().Lookup(sel.Sel.Name).(*types.Func); ok {
						return env.pureCall(fc.eng.prog.FuncValue(fo), nil, c.Args)
					}
				}
			}
		}
		// method call on a value: pure Go method evaluated in the spec state
		recv := env.expr(sel.X)
		var base types.Type
		switch recv.K {
		case KAddr:
			base = types.NewPointer(recv.A.T)
		default:
			base = recv.T
		}
		pkg := env.pkg
		if n := namedOf(base); n != nil && n.Obj().Pkg() != nil {
			pkg = n.Obj().Pkg()
		}
		obj, _, _ := types.LookupFieldOrMethod(base, true, pkg, sel.Sel.Name)
		fo, ok := obj.(*types.Func)
		if !ok {
			env.fail("no method %s on %s", sel.Sel.Name, base)
		}
		if recv.K == KIface {
			env.fail("interface method call in spec: %s", sel.Sel.Name)
		}
		fn := fc.eng.prog.FuncValue(fo)
		if fn == nil {
			env.fail("no SSA for method %s", sel.Sel.Name)
		}
		// value receiver on pointer: load
		if _, isPtr := fn.Signature.Recv().Type().(*types.Pointer); !isPtr && recv.K == KAddr {
			recv = fc.load(env.st, recv.A)
		}
		return env.pureCall(fn, &recv, c.Args)
	}
	env.fail("unsupported call %s", types.ExprString(c))
	return Val{}
}

// refOf: the object identity of a value (pointer ref, interface payload, slice array, map ref).
func refOf(v Val) string {
	switch v.K {
	case KAddr:
		return v.A.Base
	case KSlice:
		return v.Arr
	}
	return v.S
}

func namedOf(t types.Type) *types.Named {
	if p, ok := t.(*types.Pointer); ok {
		t = p.Elem()
	}
	n, _ := t.(*types.Named)
	return n
}

// byteAxiom: every element of a byte array version is a byte (heap
// well-typedness; all stores write wrapped values).
func (fc *FnCtx) byteAxiom(m string) {
	fc.sc.assume("(forall ((a Int) (i Int)) (! (inr (select (select " + m + " a) i) 0 255) :pattern ((select (select " + m + " a) i))))")
}

func beTerm(fc *FnCtx, st *State, s Val, i string, n int) string {
	fc.byteAxiom(fc.elemArray(st, s))
	inner := tSel(fc.elemArray(st, s), s.Arr)
	t := "0"
	for k := 0; k < n; k++ {
		b := tSel(inner, tAdd(tAdd(s.Off, i), num(int64(k))))
		mul := pow2(int64(8 * (n - 1 - k))).String()
		if t == "0" {
			t = sx("*", b, mul)
		} else if mul == "1" {
			t = sx("+", t, b)
		} else {
			t = sx("+", t, sx("*", b, mul))
		}
	}
	return t
}

func (env *SpecEnv) sameElems(a, b Val) string {
	fc := env.fc
	fc.nq++
	j := fmt.Sprintf("q%d_j", fc.nq)
	ia := tSel(fc.elemArray(env.st, a), a.Arr)
	ib := tSel(fc.elemArray(env.st, b), b.Arr)
	env.quant = true
	return tAnd(tEq(a.Len, b.Len), "(forall (("+j+" Int)) (=> (and (<= 0 "+j+") (< "+j+" "+a.Len+")) (= (select "+ia+" (+ "+a.Off+" "+j+")) (select "+ib+" (+ "+b.Off+" "+j+")))))")
}

func (env *SpecEnv) applyPred(p *Pred, args []ast.Expr) Val {
	if len(args) != len(p.Params) {
		env.fail("pred %s: want %d args", p.Name, len(p.Params))
	}
	n := *env
	n.vars = map[string]Val{}
	for i, a := range args {
		n.vars[p.Params[i]] = env.expr(a)
	}
	n.pkg = p.Pkg
	n.fr = nil
	v := n.eval(p.Body)
	if n.quant {
		env.quant = true
	}
	return v
}

// pureCall evaluates a Go function symbolically in the spec state, discarding
// state changes and obligations.
func (env *SpecEnv) pureCall(fn *ssaFunction, recv *Val, argExprs []ast.Expr) Val {
	fc := env.fc
	if fn == nil {
		env.fail("function has no SSA")
	}
	var args []Val
	if recv != nil {
		args = append(args, *recv)
	}
	for i, a := range argExprs {
		v := env.expr(a)
		pi := i
		if recv != nil {
			pi++
		}
		if pi < len(fn.Params) && v.K == KInt && v.T == untypedInt {
			v.T = fn.Params[pi].Type()
		}
		args = append(args, v)
	}
	st := env.st.clone()
	fc.quiet++
	defer func() { fc.quiet-- }()
	fr := env.fr
	if fr == nil {
		fr = &Frame{fn: fc.fn, vals: map[ssaValue]Val{}, prefix: "spec", names: map[string]ssaValue{}}
	}
	if con := fc.eng.contracts[fn.String()]; con != nil && !con.Inline {
		return fc.callByContract(fr, st, "true", con, fn, args, nil)
	}
	return fc.inline(fr, st, "true", fn, args, nil, nil)
}

// splitConj splits a spec into conjuncts: top-level && and the right-hand
// side of an implication (a ==> b && c becomes a ==> b, a ==> c), so that
// each part is its own obligation.
func splitConj(sp Spec) []Spec {
	switch t := sp.(type) {
	case *SAnd:
		return append(splitConj(t.L), splitConj(t.R)...)
	case *SImp:
		var out []Spec
		for _, r := range splitConj(t.R) {
			out = append(out, &SImp{t.L, r})
		}
		return out
	case *SGo:
		if be, ok := t.E.(*ast.BinaryExpr); ok && be.Op == token.LAND {
			return append(splitConj(&SGo{be.X}), splitConj(&SGo{be.Y})...)
		}
		if pe, ok := t.E.(*ast.ParenExpr); ok {
			return splitConj(&SGo{pe.X})
		}
	}
	return []Spec{sp}
}
