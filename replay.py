"""Replay of a counterexample on the real code: the generated test is injected
with `go test -overlay` (nothing is written into /repo)."""
import json, os, subprocess, tempfile, shutil


def replay(rec, repo, env):
    src = rec.get("replay_go")
    if not src:
        return False, rec.get("replay_why") or "no replay recipe"
    pkg = rec.get("replay_pkg") or ""
    d = tempfile.mkdtemp(prefix="verifreplay", dir=os.path.join(os.path.dirname(os.path.abspath(__file__)), ".work") if os.path.isdir(os.path.join(os.path.dirname(os.path.abspath(__file__)), ".work")) else None)
    try:
        tf = os.path.join(d, "zz_verif_replay_test.go")
        with open(tf, "w") as f:
            f.write(src)
        ov = os.path.join(d, "overlay.json")
        target = os.path.join(repo, pkg, "zz_verif_replay_test.go")
        with open(ov, "w") as f:
            json.dump({"Replace": {target: tf}}, f)
        cmd = "ulimit -v 8000000; go test -overlay %s -vet=off -count=1 -timeout 60s -run '^TestVerifReplay$' ./%s" % (ov, pkg or ".")
        r = subprocess.run(["bash", "-c", cmd], cwd=repo, env=env, capture_output=True, text=True)
        out = (r.stdout + r.stderr)[-2000:]
        if "REPRODUCED" in out:
            return True, out
        return False, "replay ran, not reproduced: " + out
    finally:
        shutil.rmtree(d, ignore_errors=True)
