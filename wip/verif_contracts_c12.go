//go:build verif

// Machine-checked contracts for property C12 (pooled frame buffers have exactly
// one owner at a time). Comments only.
//
// own(f) == 1 means "the current thread of control holds frame f". The token is
// produced by FramePool.Get, by NewFrame and by receiving a frame from a
// channel; it is consumed by FramePool.Release, by sending the frame on a
// channel and by handing it to a spawned goroutine. Every access through a
// *Frame needs the token (directive `owned Frame own` in verif_contracts.go),
// so "released at most once" and "not touched after release or hand-off" are
// obligations of every function below, on every sequential path including
// error paths. Hand-off between goroutines is by these transfer contracts, not
// by a proof about Go channels.

package tchannel

// Frames travelling on the two frame channels are well formed and change owner.
//@ chanfield Connection.sendCh(f *Frame)
//@   requires FrameFull(f)
//@   consumes own(f)
//@   produces own(f)
//@ chanfield messageExchange.recvCh(f *Frame)
//@   requires FrameFull(f)
//@   consumes own(f)
//@   produces own(f)

// The writer goroutine releases every frame it takes from the send queue
// exactly once, after writing it, and drains the queue on stop.
//@ func (c *Connection) writeFrames(_ uint32)
//@   nosafety
//@   modifies all
//@   property C12

// The reader loop releases exactly the frames the handler did not take.
//@ func (c *Connection) readFrames(_ uint32)
//@   nosafety
//@   modifies all
//@   property C12

// Handlers: a frame the handler asks the reader loop to release is still held
// (it was neither queued, handed to a goroutine nor released).
//@ func (c *Connection) handleFrameNoRelay(frame *Frame) (release bool)
//@   nosafety
//@   requires FrameFull(frame) && frame.Header.size >= 16 && c.inbound != nil && c.outbound != nil && MexSetOK(c.inbound) && MexSetOK(c.outbound)
//@   modifies all
//@   label released-frames-are-still-held
//@   ensures release ==> own(frame) == 1
//@   property C12

//@ func (c *Connection) handleCallReq(frame *Frame) (release bool)
//@   label released-frames-are-still-held
//@   ensures release ==> own(frame) == 1
//@   property C12

//@ func (c *Connection) handleCallReqContinue(frame *Frame) (release bool)
//@   nosafety
//@   requires FrameFull(frame) && c.inbound != nil && MexSetOK(c.inbound)
//@   modifies all
//@   ensures release ==> own(frame) == 1
//@   property C12

//@ func (c *Connection) handleCallRes(frame *Frame) (release bool)
//@   nosafety
//@   requires FrameFull(frame) && c.outbound != nil && MexSetOK(c.outbound)
//@   modifies all
//@   ensures release ==> own(frame) == 1
//@   property C12

//@ func (c *Connection) handleCallResContinue(frame *Frame) (release bool)
//@   nosafety
//@   requires FrameFull(frame) && c.outbound != nil && MexSetOK(c.outbound)
//@   modifies all
//@   ensures release ==> own(frame) == 1
//@   property C12

//@ func (c *Connection) handlePingRes(frame *Frame) (release bool)
//@   nosafety
//@   requires FrameFull(frame) && c.outbound != nil && MexSetOK(c.outbound)
//@   modifies all
//@   ensures release ==> own(frame) == 1
//@   property C12

//@ func (c *Connection) handlePingReq(frame *Frame)
//@   nosafety
//@   requires FrameFull(frame)
//@   modifies allbut own, Frame
//@   property C12

//@ func (c *Connection) handleCancel(frame *Frame) (release bool)
//@   nosafety
//@   requires FrameFull(frame)
//@   modifies allbut own, Frame
//@   ensures release
//@   property C12

//@ func (c *Connection) handleError(frame *Frame) (release bool)
//@   nosafety
//@   requires FrameFull(frame) && frame.Header.size >= 16 && c.outbound != nil && MexSetOK(c.outbound)
//@   modifies all
//@   ensures release ==> own(frame) == 1
//@   property C12

// Forwarding a frame to an exchange hands it over exactly when it succeeds
// (a frame for an unknown id is dropped and stays unreleased: fault path).
//@ func (mex *messageExchange) forwardPeerFrame(frame *Frame) (err error)
//@   requires FrameFull(frame)
//@   modifies own(frame)
//@   label failed-forward-keeps-the-frame
//@   ensures err != nil ==> own(frame) == 1
//@   label successful-forward-hands-it-over
//@   ensures err == nil ==> own(frame) == 0
//@   property C12

//@ func (mexset *messageExchangeSet) forwardPeerFrame(frame *Frame) (err error)
//@   requires FrameFull(frame)
//@   requires forall k uint32 :: has(mexset.exchanges, k) ==> mexset.exchanges[k].ctx != nil
//@   modifies own(frame)
//@   ensures err != nil ==> own(frame) == 1
//@   property C12

// Standalone messages: the frame is queued, or released when it cannot be built.
//@ func (c *Connection) sendMessage(msg message) (err error)
//@   nosafety
//@   requires msg != nil && c.opts.FramePool != nil
//@   modifies allbut own, Frame, errAttempts
//@   property C12

// Error frames: queued (then the writer owns it) or released, never both.
//@ func (c *Connection) SendSystemError(id uint32, span Span, err error) (sendErr error)
//@   property C12

// The caller of an exchange receives frames it then owns; an error frame is
// released once it has been decoded.
//@ func (mex *messageExchange) recvPeerFrame() (f *Frame, err error)
//@   nosafety
//@   requires mex.ctx != nil && MexSetOK(mex.mexset)
//@   modifies all
//@   ensures err == nil ==> FrameFull(f) && f.Header.ID == mex.msgID
//@   property C12 C04

//@ func (mex *messageExchange) recvPeerFrameOfType(msgType messageType) (f *Frame, err error)
//@   nosafety
//@   requires mex.ctx != nil && MexSetOK(mex.mexset) && mex.framePool != nil
//@   modifies all
//@   ensures err == nil ==> FrameFull(f) && f.Header.messageType == msgType
//@   property C12

// The release callback of a parsed fragment releases the fragment's frame.
//@ closure parseInboundFragment 1
//@   requires framePool != nil
//@   consumes own(frame)
//@   modifies own(frame)
//@   property C12

// done() runs the callback at most once per fragment.
//@ func (f *readableFragment) done()
//@   label release-callback-runs-at-most-once
//@   atcall onDone !f.isDone
//@   ensures old(f.isDone) ==> f.isDone
//@   property C12

// A dispatched call owns its first frame; when the method cannot be read the
// frame is given back through the fragments (idempotent), never directly.
//@ func (c *Connection) dispatchInbound(_ uint32, _ uint32, call *InboundCall, frame *Frame)
//@   nosafety
//@   consumes own(frame)
//@   modifies all
//@   property C12

// Constructor-only structure of a connection (never reassigned after newConnection).
//@ structinv (c *Connection) established newConnection : c.inbound != nil && c.outbound != nil
//@ structinv (s *messageExchangeSet) established newMessageExchangeSet, newConnection : s.log != nil && s.exchanges != nil && s.expiredExchanges != nil

//@ func newMessageExchangeSet(log Logger, name string) (s *messageExchangeSet)
//@   requires log != nil
//@   ensures fresh(s)
//@   property C12 C04
