#!/usr/bin/env python3
import json, os
HERE = os.path.dirname(os.path.dirname(os.path.abspath(__file__)))
props = [json.loads(l) for l in open(os.path.join(HERE, "properties.jsonl"))]
claims = json.load(open(os.path.join(HERE, "tools", "claims.json")))
na = json.load(open(os.path.join(HERE, "tools", "not_applicable.json")))
hooks = json.load(open(os.path.join(HERE, "tools", "hooks.json")))
import subprocess
try:
    out = subprocess.run(["git", "-C", "/repo", "log", "--format=%h %s", "--reverse"], capture_output=True, text=True).stdout
    commits = [l.split()[0] for l in out.splitlines() if l.split(" ", 1)[1].startswith("verif:")]
    if commits:
        hooks["source_commits"] = commits
        json.dump(hooks, open(os.path.join(HERE, "tools", "hooks.json"), "w"), indent=1)
except Exception:
    pass
checks = []
for p in props:
    c = claims.get(p["id"])
    if not c:
        continue
    checks.append({
        "property_id": p["id"],
        "quick_cmd": "./check %s quick" % p["id"],
        "thorough_cmd": "./check %s thorough" % p["id"],
        "evidence_file": "evidence/%s.json" % p["id"],
        "replay_cmd_template": "./check replay {path}",
        "engine": "govc",
        "level_claimed": {"category": "proof", "text": c["text"], "design_ref": c["design_ref"]},
        "level_note": c["note"],
        "technique": "contract-based deductive verification: weakest-precondition VCs generated from go/ssa of the real code against //@ contracts kept in build-tag-guarded comment files in /repo, discharged per obligation by z3/cvc5",
    })
m = {
    "version": 1,
    "setup_cmd": "./check setup",
    "hooks": hooks,
    "engines": [{"name": "govc", "path": "govc/", "serves_properties": [c["property_id"] for c in checks],
                 "kind_free_text": "own verification-condition generator over go/ssa (x/tools v0.29.0) + SMT (z3 5.1.0, cvc5 1.0, z3 4.8.12)"}],
    "checks": checks,
    "notes": "Contracts live in /repo/**/verif_contracts.go (comment-only, //go:build verif). See DESIGN.md.",
    "not_applicable": [{"property_id": p["id"], "reason": na.get(p["id"], "not yet claimed: contracts for this property are not built yet (see DESIGN.md section 5 for the plan)")}
                       for p in props if p["id"] not in claims],
}
json.dump(m, open(os.path.join(HERE, "MANIFEST.json"), "w"), indent=1)
print("claimed:", [c["property_id"] for c in checks])
